"""CrossHair harnesses (engine CH): osu! metadata text fields as symbolic strings of bounded length.

Each function is a condition: CrossHair searches for an argument that makes the postcondition false while executing the
real OsuMapMeta parser/formatter.  The format has no escape for line breaks, so they are excluded by the precondition.
"""
from reamber.osu.OsuMapMeta import OsuMapMeta


def _ok(v: str) -> bool:
    return len(v) <= 4 and chr(10) not in v and chr(13) not in v


def _read(key: str, attr: str, v: str) -> bool:
    m = OsuMapMeta()
    m._read_meta_string_list([key + ":" + v])
    return getattr(m, attr) == v.strip()


def read_title(v: str) -> bool:
    """
    pre: _ok(v)
    post: _
    """
    return _read("Title", "title", v)


def read_version(v: str) -> bool:
    """
    pre: _ok(v)
    post: _
    """
    return _read("Version", "version", v)


def read_creator(v: str) -> bool:
    """
    pre: _ok(v)
    post: _
    """
    return _read("Creator", "creator", v)


def read_source(v: str) -> bool:
    """
    pre: _ok(v)
    post: _
    """
    return _read("Source", "source", v)


def read_artist_unicode(v: str) -> bool:
    """
    pre: _ok(v)
    post: _
    """
    return _read("ArtistUnicode", "artist_unicode", v)


def read_audio(v: str) -> bool:
    """
    pre: _ok(v)
    post: _
    """
    return _read("AudioFilename", "audio_file_name", v)


def _roundtrip(attr: str, v: str) -> bool:
    m = OsuMapMeta()
    setattr(m, attr, v)
    m2 = OsuMapMeta()
    m2._read_meta_string_list(m.write_meta_string_list())
    return getattr(m2, attr) == v


def _clean(v: str) -> bool:
    return _ok(v) and v == v.strip()


def roundtrip_version(v: str) -> bool:
    """
    pre: _clean(v)
    post: _
    """
    return _roundtrip("version", v)


def roundtrip_creator(v: str) -> bool:
    """
    pre: _clean(v)
    post: _
    """
    return _roundtrip("creator", v)


def roundtrip_title_unicode(v: str) -> bool:
    """
    pre: _clean(v)
    post: _
    """
    return _roundtrip("title_unicode", v)


def roundtrip_source(v: str) -> bool:
    """
    pre: _clean(v)
    post: _
    """
    return _roundtrip("source", v)
