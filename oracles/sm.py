"""Reference reader for StepMania .sm files (written from the format rules, not from reamber).

parse(ctx, text) -> dict(header, offset_ms, bpms=[(beat, bpm)], charts=[...]); every numeral may be a token for a term.
A chart's objects carry absolute beat positions (exact Fractions); ``ms_of`` integrates them over the #BPMS segments
starting at -#OFFSET.
"""
from __future__ import annotations

import re
from fractions import Fraction as F

SYMBOLS = {"1": "hit", "2": "hold", "4": "roll", "M": "mine", "L": "lift", "F": "fake", "K": "keysound"}
# columns per chart type as StepMania defines them (not taken from the library's table)
KEYS = {"dance-single": 4, "dance-double": 8, "dance-solo": 6, "dance-couple": 8, "dance-threepanel": 3, "dance-routine": 8, "kb7-single": 7,
        "pump-single": 5, "pump-halfdouble": 6, "pump-double": 10, "pump-couple": 10}


class BadFile(Exception):
    pass


def strip_comments(text):
    return "\n".join(line.split("//")[0] for line in text.split("\n"))


def parse(ctx, text, keep_comment_lines=True):
    raw = text
    text = strip_comments(text)
    tags = []
    for chunk in text.split(";"):
        chunk = chunk.strip()
        if not chunk:
            continue
        if not chunk.startswith("#"):
            i = chunk.find("#")
            if i < 0:
                continue
            chunk = chunk[i:]
        k, _, v = chunk.partition(":")
        tags.append((k.strip().upper(), v))
    header, charts, bpms, stops, offset = {}, [], [], [], 0
    for k, v in tags:
        if k == "#NOTES":
            charts.append(_chart(ctx, v))
        elif k == "#BPMS":
            for item in v.split(","):
                item = item.strip()
                if item:
                    b, _, x = item.partition("=")
                    bpms.append((ctx.num(b), ctx.num(x)))
        elif k == "#STOPS":
            stops = [i for i in v.split(",") if i.strip()]
        elif k == "#OFFSET":
            offset = ctx.num(v)
            header[k] = offset
        elif k in ("#SAMPLESTART", "#SAMPLELENGTH"):
            header[k] = ctx.num(v)
        else:
            header[k] = v.strip()
    return dict(header=header, offset_ms=-1000 * offset, bpms=bpms, stops=stops, charts=charts)


def _chart(ctx, v):
    parts = v.split(":")
    if len(parts) < 6:
        raise BadFile("#NOTES needs 6 fields")
    ctype, desc, diff, meter, radar = [p.strip() for p in parts[:5]]
    data = ":".join(parts[5:])
    keys = KEYS.get(ctype)
    measures = []
    for mtxt in data.split(","):
        rows = [r.strip() for r in mtxt.split("\n") if r.strip()]
        measures.append(rows)
    objs, open_heads, bad = [], {}, []
    for mi, rows in enumerate(measures):
        n = len(rows)
        if n == 0:
            continue
        if n % 4:
            bad.append("measure %d has %d rows" % (mi, n))
        for ri, row in enumerate(rows):
            if keys is not None and len(row) != keys:
                bad.append("row %r has %d symbols, chart type %s has %d keys" % (row, len(row), ctype, keys))
            beat = F(4 * mi) + F(4 * ri, n)
            for col, ch in enumerate(row):
                if ch == "0":
                    continue
                if ch in ("2", "4"):
                    if col in open_heads:
                        bad.append("head on an open hold in column %d" % col)
                    open_heads[col] = (SYMBOLS[ch], beat)
                elif ch == "3":
                    if col not in open_heads:
                        bad.append("tail without head in column %d" % col)
                        continue
                    kind, b0 = open_heads.pop(col)
                    objs.append(dict(kind=kind, col=col, beat=b0, end=beat))
                elif ch in SYMBOLS:
                    objs.append(dict(kind=SYMBOLS[ch], col=col, beat=beat))
                else:
                    bad.append("unknown symbol %r" % ch)
    for col in open_heads:
        bad.append("unclosed hold in column %d" % col)
    return dict(type=ctype, description=desc, difficulty=diff, meter=meter, radar=[x.strip() for x in radar.split(",")], keys=keys, objects=objs,
                measures=measures, ill_formed=bad)


def ms_of(ctx, d, beat):
    """piecewise-linear integration from -#OFFSET over the #BPMS segments (sorted by beat; beats are concrete)."""
    segs = sorted(d["bpms"], key=lambda p: p[0])
    t = d["offset_ms"]
    for i, (b0, bpm) in enumerate(segs):
        b1 = segs[i + 1][0] if i + 1 < len(segs) else None
        L = 60000 / bpm
        if b1 is None or beat <= b1:
            return t + (beat - b0) * L
        t = t + (b1 - b0) * L
    return t


def beat_length_at(ctx, d, beat):
    segs = sorted(d["bpms"], key=lambda p: p[0])
    cur = segs[0][1]
    for b0, bpm in segs:
        if b0 <= beat:
            cur = bpm
    return 60000 / cur
