"""Reference denotation and schema of a parsed .qua document (written from the Quaver format: values equal to the
type's default are omitted on save, so an omitted numeric key is 0, an omitted list is [])."""
from __future__ import annotations

from fractions import Fraction

from symx.core import SymNum, isna

NOTE_KEYS = {"StartTime": "int", "Lane": "int", "EndTime": "int", "KeySounds": "list", "HitSound": "any", "EditorLayer": "int"}
TP_KEYS = {"StartTime": "num", "Bpm": "num", "Signature": "any", "Hidden": "any"}
SV_KEYS = {"StartTime": "num", "Multiplier": "num"}
META_KEYS = {"AudioFile": "str", "SongPreviewTime": "int", "BackgroundFile": "str", "BannerFile": "str", "Genre": "str",
             "BPMDoesNotAffectScrollVelocity": "bool", "InitialScrollVelocity": "num", "HasScratchKey": "bool", "MapId": "int", "MapSetId": "int", "Mode": "str",
             "Title": "str", "Artist": "str", "Source": "str", "Tags": "str", "Creator": "str", "DifficultyName": "str", "Description": "str",
             "EditorLayers": "list", "CustomAudioSamples": "list", "SoundEffects": "list", "TimingPoints": "list", "SliderVelocities": "list", "HitObjects": "list"}


def denote(doc):
    hits, holds = [], []
    for o in doc.get("HitObjects", []) or []:
        t = o.get("StartTime", 0)
        lane = o.get("Lane", 0)
        ks = o.get("KeySounds", [])
        if "EndTime" in o:
            holds.append(dict(t=t, col=lane - 1, len=o["EndTime"] - t, keysounds=ks))
        else:
            hits.append(dict(t=t, col=lane - 1, keysounds=ks))
    bpms = [dict(t=b.get("StartTime", 0), bpm=b.get("Bpm", 0), has_bpm="Bpm" in b) for b in doc.get("TimingPoints", []) or []]
    svs = [dict(t=s.get("StartTime", 0), mult=s.get("Multiplier", 0), has_mult="Multiplier" in s) for s in doc.get("SliderVelocities", []) or []]
    return dict(hits=hits, holds=holds, bpms=bpms, svs=svs)


def _type_ok(v, kind, int_like):
    if kind == "any":
        return True
    if kind == "list":
        return isinstance(v, list)
    if kind == "str":
        return isinstance(v, str)
    if kind == "bool":
        return isinstance(v, bool)
    if isinstance(v, bool):
        return False
    if isinstance(v, SymNum):
        return True if kind == "num" else int_like(v)
    if isinstance(v, (int,)):
        return True
    if isinstance(v, (float, Fraction)):
        if v != v:
            return False
        return kind == "num" or float(v).is_integer()
    try:
        import numpy as np

        if isinstance(v, np.integer):
            return True
        if isinstance(v, np.floating):
            return (not np.isnan(v)) and (kind == "num" or float(v).is_integer())
    except Exception:
        pass
    return False


def schema_violations(doc, int_like):
    """list of human-readable violations of the key set / value types of a document handed to the YAML dumper."""
    bad = []
    for k, v in doc.items():
        if k not in META_KEYS:
            bad.append("unknown top-level key %r" % k)
        elif not _type_ok(v, META_KEYS[k], int_like):
            bad.append("%s: %r is not %s" % (k, v, META_KEYS[k]))
    for sec, keys in (("HitObjects", NOTE_KEYS), ("TimingPoints", TP_KEYS), ("SliderVelocities", SV_KEYS)):
        for i, o in enumerate(doc.get(sec, []) or []):
            if not isinstance(o, dict):
                bad.append("%s[%d] is not a mapping" % (sec, i))
                continue
            for k, v in o.items():
                if k not in keys:
                    bad.append("%s[%d]: unknown key %r" % (sec, i, k))
                elif not _type_ok(v, keys[k], int_like):
                    bad.append("%s[%d].%s: %r is not %s" % (sec, i, k, v, keys[k]))
    return bad
