"""Reference reader for the osu! file format v14, mania dialect (written from the format definition, not from reamber).

``parse(ctx, lines)`` maps a list of text lines - in which a numeral may be a token standing for a solver term - to
the chart the text denotes.  Only what reamber models is returned.
"""
from __future__ import annotations

from symx.core import SymNum


class BadFile(Exception):
    pass


def _sections(lines):
    sec, cur = {}, None
    order = []
    for raw in lines:
        for line in str(raw).split("\n"):
            s = line.strip()
            if s.startswith("[") and s.endswith("]"):
                cur = s[1:-1]
                sec.setdefault(cur, [])
                order.append(cur)
            elif cur is not None:
                sec[cur].append(s)
            else:
                sec.setdefault("", []).append(s)
    return sec, order


def _kv(lines):
    out = {}
    for s in lines:
        if not s or s.startswith("//"):
            continue
        if ":" in s:
            k, v = s.split(":", 1)
            out[k.strip()] = v.strip()
    return out


def column_of(ctx, x, keys):
    """column = floor(x * keys / 512), clamped to [0, keys-1]."""
    q = x * keys / 512
    c = q.floor() if isinstance(q, SymNum) else (q // 1)
    if ctx.lt(c, 0):
        return 0
    if ctx.gt(c, keys - 1):
        return keys - 1
    return c


def parse(ctx, lines, strict=True):
    sec, order = _sections(lines)
    for need in ("TimingPoints", "HitObjects"):
        if need not in sec:
            raise BadFile("no [%s]" % need)
    out = dict(order=order, ill_formed=[])
    meta = {}
    for name in ("General", "Editor", "Metadata", "Difficulty"):
        meta.update(_kv(sec.get(name, [])))
    out["meta"] = meta
    keys = int(float(meta.get("CircleSize", "4")))
    out["keys"] = keys
    # events
    samples, bg = [], None
    ev = sec.get("Events", [])
    for i, s in enumerate(ev):
        if s.startswith("Sample"):
            f = s.split(",")
            if len(f) < 5:
                out["ill_formed"].append(s)
                continue
            samples.append(dict(t=ctx.num(f[1]), file=f[3], volume=ctx.num(f[4])))
        elif s.startswith("0,0,") and bg is None:
            bg = s[s.find('"') + 1: s.rfind('"')] if '"' in s else s.split(",")[2]
    out["samples"], out["background"] = samples, bg
    # timing points
    bpms, svs = [], []
    for s in sec["TimingPoints"]:
        if not s:
            continue
        f = s.split(",")
        if len(f) != 8:
            out["ill_formed"].append(s)
            continue
        t, code = ctx.num(f[0]), ctx.num(f[1])
        common = dict(t=t, sample_set=ctx.num(f[3]), sample_index=ctx.num(f[4]), volume=ctx.num(f[5]), kiai=ctx.num(f[7]))
        unin = f[6].strip()
        if unin == "1":
            bpms.append(dict(common, bpm=60000 / code, metronome=ctx.num(f[2])))
        elif unin == "0":
            svs.append(dict(common, mult=-100 / code))
        else:
            out["ill_formed"].append(s)
    out["bpms"], out["svs"] = bpms, svs
    hits, holds = [], []
    for s in sec["HitObjects"]:
        if not s:
            continue
        f = s.split(",")
        if len(f) != 6:
            out["ill_formed"].append(s)
            continue
        x, t, typ, hs = ctx.num(f[0]), ctx.num(f[2]), int(f[3]), ctx.num(f[4])
        extra = f[5].split(":")
        col = column_of(ctx, x, keys)
        if typ & 128:
            if len(extra) != 6:
                out["ill_formed"].append(s)
                continue
            end = ctx.num(extra[0])
            holds.append(dict(t=t, col=col, len=end - t, end=end, hitsound=hs, sample_set=ctx.num(extra[1]), addition=ctx.num(extra[2]),
                              index=ctx.num(extra[3]), volume=ctx.num(extra[4]), file=extra[5]))
        else:
            if len(extra) != 5:
                out["ill_formed"].append(s)
                continue
            hits.append(dict(t=t, col=col, hitsound=hs, sample_set=ctx.num(extra[0]), addition=ctx.num(extra[1]), index=ctx.num(extra[2]),
                             volume=ctx.num(extra[3]), file=extra[4]))
    out["hits"], out["holds"] = hits, holds
    return out
