"""Builder and reference reader for OJN byte strings (O2Jam), written from the published layout.

Header (300 bytes, little endian): int songid; char[4] signature; float encode_version; int genre; float bpm; short level[4];
int event_count[3]; int note_count[3]; int measure_count[3]; int package_count[3]; short old_encode_version; short old_songid;
char old_genre[20]; int bmp_size; int old_file_version; char title[64]; char artist[32]; char noter[32]; char ojm_file[32];
int cover_size; int time[3]; int note_offset[3]; int cover_offset.
Package: int measure; short channel; short events; then events x 4 bytes.  Channel 1: float bpm (0 = none);
channels 2..8: short value (0 = none), byte volume<<4|pan, byte type (0 note, 2 LN head, 3 LN tail).

A symbolic float is written as a NaN whose payload is an index into ``MARKS`` (see ``mark``/``unmark``).
"""
from __future__ import annotations

import struct
from fractions import Fraction as F

MARKS: list = []


def reset():
    MARKS.clear()


def mark(term) -> bytes:
    MARKS.append(term)
    return struct.pack("<I", 0x7FC00000 | (len(MARKS) - 1 + 1))


def unmark(b: bytes):
    (u,) = struct.unpack("<I", b)
    if (u & 0x7FC00000) == 0x7FC00000 and (u & 0x3FFFFF) != 0 and (u & 0x3FFFFF) <= len(MARKS):
        return MARKS[(u & 0x3FFFFF) - 1]
    return None


def f32(x) -> bytes:
    if isinstance(x, (int, float, F)):
        return struct.pack("<f", float(x))
    return mark(x)


def header(h):
    b = b""
    b += struct.pack("<i", h["song_id"]) + h["signature"].encode().ljust(4, b"\0")[:4] + struct.pack("<f", h["encode_version"]) + struct.pack("<i", h["genre"])
    b += f32(h["bpm"])
    b += struct.pack("<4h", *h["level"]) + struct.pack("<3i", *h["event_count"]) + struct.pack("<3i", *h["note_count"])
    b += struct.pack("<3i", *h["measure_count"]) + struct.pack("<3i", *h["package_count"])
    b += struct.pack("<h", h["old_encode_version"]) + struct.pack("<h", h["old_song_id"]) + h["old_genre"].ljust(20, b"\0")[:20]
    b += struct.pack("<i", h["bmp_size"]) + struct.pack("<i", h["old_file_version"])
    b += h["title"].encode().ljust(64, b"\0")[:64] + h["artist"].encode().ljust(32, b"\0")[:32] + h["creator"].encode().ljust(32, b"\0")[:32]
    b += h["ojm_file"].encode().ljust(32, b"\0")[:32]
    b += struct.pack("<i", h["cover_size"]) + struct.pack("<3i", *h["duration"]) + struct.pack("<3i", *h["note_offset"]) + struct.pack("<i", h["cover_offset"])
    assert len(b) == 300, len(b)
    return b


def package(measure, channel, events):
    """events: list of None | ('bpm', value) | ('note', kind, volume, pan) with kind in hit/head/tail"""
    b = struct.pack("<ihh", measure, channel, len(events))
    for e in events:
        if e is None:
            b += b"\0\0\0\0"
        elif e[0] == "bpm":
            b += f32(e[1])
        else:
            t = {"hit": 0, "head": 2, "tail": 3}[e[1]]
            b += struct.pack("<HBB", e[4] if len(e) > 4 else 1, (e[2] << 4) | e[3], t)
    return b


def denote(pkgs):
    """reference: [(measure, channel, events)] of ONE difficulty -> notes with measure positions and tempo events"""
    hits, holds, tempo, open_ln = [], [], [], {}
    items = []
    for pi, (measure, channel, events) in enumerate(pkgs):
        n = len(events)
        for i, e in enumerate(events):
            if e is None:
                continue
            items.append((F(measure) + F(i, n), pi, channel, e))
    notes = sorted([x for x in items if x[3][0] == "note"], key=lambda x: (x[0], x[1]))
    for pos, _pi, channel, e in notes:
        colm = channel - 2
        if e[1] == "hit":
            hits.append(dict(col=colm, pos=pos, volume=e[2], pan=e[3]))
        elif e[1] == "head":
            open_ln[colm] = (pos, e)
        else:
            hpos, he = open_ln.pop(colm)
            holds.append(dict(col=colm, pos=hpos, end=pos, volume=he[2], pan=he[3]))
    for pos, _pi, channel, e in sorted([x for x in items if x[3][0] == "bpm"], key=lambda x: (x[0], x[1])):
        tempo.append((pos, e[1]))
    return dict(hits=hits, holds=holds, tempo=tempo)


def ms_of(d, bpm0, pos):
    """4 beats per measure, integrating over the header tempo and every tempo event before the position"""
    segs = [(F(0), bpm0)]
    for p, v in d["tempo"]:
        if p == segs[-1][0]:
            segs[-1] = (p, v)
        else:
            segs.append((p, v))
    t = 0
    for i, (p0, bpm) in enumerate(segs):
        p1 = segs[i + 1][0] if i + 1 < len(segs) else None
        L = 60000 / bpm if hasattr(bpm, "p") else F(60000) / F(bpm)
        if p1 is None or pos <= p1:
            return t + (pos - p0) * 4 * L
        t = t + (p1 - p0) * 4 * L
    return t
