"""Reference reader for BMS/BME/PMS texts (4/4 measures, no channel 02), written from the BMS rules.

parse(ctx, lines, layout) -> dict(header, bpm0, exbpm, wav, lnobj, objects, tempo_events, ill_formed)
Lines may be str or bytes; numerals may be tokens.  Positions are exact Fractions in beats (4 * (measure + i/division)).
"""
from __future__ import annotations

import re
from fractions import Fraction as F

# The five standard channel layouts (channel -> lane), written out here so that the reference does not take them from the
# library: a wrong entry in reamber's own tables must show up as a difference.
LAYOUTS = {
    "BMS": {"11": 0, "12": 1, "13": 2, "14": 3, "15": 4, "16": 5, "17": 6, "21": 7, "22": 8, "23": 9, "24": 10, "25": 11, "26": 12, "27": 13},
    "BME": {"16": 0, "11": 1, "12": 2, "13": 3, "14": 4, "15": 5, "18": 6, "19": 7, "21": 8, "22": 9, "23": 10, "24": 11, "25": 12, "28": 13, "29": 14, "26": 15},
    "PMS": {"11": 0, "12": 1, "13": 2, "14": 3, "15": 4, "22": 5, "23": 6, "24": 7, "25": 8},
    "PMS_BME": {"11": 0, "12": 1, "13": 2, "14": 3, "15": 4, "18": 5, "19": 6, "16": 7, "17": 8, "21": 9, "22": 10, "23": 11, "24": 12, "25": 13, "28": 14, "29": 15, "26": 16, "27": 17},
    "PMS_5B": {"13": 0, "14": 1, "15": 2, "22": 3, "23": 4},
}


def ref_layout(name):
    return {ch.encode(): lane for ch, lane in LAYOUTS[name].items()}


NOTE_LINE = re.compile(rb"^#(\d{3})([0-9A-Za-z]{2}):(.*)$")


def _b(x):
    return x if isinstance(x, bytes) else x.encode("ascii")


def parse(ctx, lines, layout):
    header, exbpm, wav, notes, bad = {}, {}, {}, [], []
    for raw in lines:
        line = _b(raw).strip()
        if not line.startswith(b"#"):
            continue
        m = NOTE_LINE.match(line)
        if m:
            meas, ch, data = int(m.group(1)), m.group(2), m.group(3).strip()
            if len(data) % 2:
                bad.append(b"odd data length: " + line)
            notes.append((meas, ch, data))
            continue
        k, _, v = line[1:].partition(b" ")
        v = v.strip()
        ku = k.upper()
        if ku.startswith(b"BPM") and len(k) == 5:
            exbpm[k[3:]] = ctx.num(v)
        elif ku.startswith(b"WAV") and len(k) == 5:
            wav[k[3:]] = v
        elif b":" in k and not v:
            bad.append(b"malformed line: " + line)
        else:
            header[ku] = v
    bpm0 = ctx.num(header[b"BPM"]) if b"BPM" in header else None
    lnobj = header.get(b"LNOBJ", b"")
    lanes = {ch: col for ch, col in layout.items() if isinstance(col, int)}
    per_lane, tempo = {}, []
    order = 0
    for meas, ch, data in notes:
        div = len(data) // 2
        for i in range(div):
            pair = data[2 * i: 2 * i + 2]
            if pair == b"00":
                continue
            pos = F(4) * (meas + F(i, div))
            order += 1
            if ch == b"03":
                tempo.append((pos, order, int(pair, 16)))
            elif ch == b"08":
                if pair not in exbpm:
                    bad.append(b"unknown #BPM id " + pair)
                    continue
                tempo.append((pos, order, exbpm[pair]))
            elif ch == b"02":
                bad.append(b"channel 02 is outside the domain")
            elif ch in lanes:
                per_lane.setdefault(lanes[ch], []).append((pos, order, pair))
            else:
                bad.append(b"unknown channel " + ch)
    hits, holds = [], []
    for colm, evs in per_lane.items():
        evs.sort(key=lambda e: (e[0], e[1]))
        stack = []
        for pos, _o, pair in evs:
            if lnobj and pair == lnobj:
                if not stack:
                    bad.append(b"LNOBJ without a preceding object")
                    continue
                hpos, hpair = stack.pop()
                holds.append(dict(col=colm, pos=hpos, end=pos, sample=wav.get(hpair, b"")))
            else:
                stack.append((pos, pair))
        for pos, pair in stack:
            hits.append(dict(col=colm, pos=pos, sample=wav.get(pair, b"")))
    tempo.sort(key=lambda e: (e[0], e[1]))
    return dict(header=header, bpm0=bpm0, exbpm=exbpm, wav=wav, lnobj=lnobj, hits=hits, holds=holds, tempo=[(p, v) for p, _o, v in tempo], ill_formed=bad)


def ms_of(ctx, d, pos):
    """integration from 0 ms at position 0 over #BPM and the 03/08 events (an event at position 0 overrides #BPM)."""
    segs = [(F(0), d["bpm0"])]
    for p, v in d["tempo"]:
        if p == segs[-1][0]:
            segs[-1] = (p, v)
        else:
            segs.append((p, v))
    t = 0
    for i, (p0, bpm) in enumerate(segs):
        p1 = segs[i + 1][0] if i + 1 < len(segs) else None
        L = 60000 / bpm if hasattr(bpm, "p") else F(60000) / F(bpm)
        if p1 is None or pos <= p1:
            return t + (pos - p0) * L
        t = t + (p1 - p0) * L
    return t


def bpm_at(ctx, d, pos):
    cur = d["bpm0"]
    for p, v in d["tempo"]:
        if p <= pos:
            cur = v
    return cur
