"""C18 - Hitsound copy moves sounds, never notes, and loses nothing it promises to keep.

Times of all source and target notes are solver variables (overlap, ties and misses are paths); sound
configurations (hitsound bits, volumes, named files) are enumerated.  The oracle is the property's
three conservation statements evaluated per time cluster (DESIGN appendix A, C18).
"""
from __future__ import annotations

import itertools
from functools import partial

from symx.run import Obligation
from symx.core import isna
from .common import classes, MapSnap, col

CLAP, FINISH, WHISTLE = 2, 4, 8

# source configurations: list of (kind, hitsound_set, volume, file)
SRC = {
    "clap": [("hit", 2, 40, "")],
    "clap+finish-one-note": [("hit", 6, 40, "")],
    "clap,whistle-two-volumes": [("hit", 2, 40, ""), ("hit", 8, 70, "")],
    "clap,clap-same-volume": [("hit", 2, 40, ""), ("hold", 2, 40, "")],
    "file": [("hit", 0, 30, "a.wav")],
    "file+clap-one-note": [("hit", 2, 30, "a.wav")],
    "two-files": [("hit", 0, 30, "a.wav"), ("hit", 0, 30, "b.wav")],
    "three-files": [("hit", 0, 30, "a.wav"), ("hit", 0, 30, "b.wav"), ("hold", 0, 30, "c.wav")],
    "file,file-two-volumes": [("hit", 0, 30, "a.wav"), ("hit", 0, 60, "b.wav")],
    "all-bits,file": [("hold", 14, 50, ""), ("hit", 4, 50, "a.wav")],
    "normal-only": [("hit", 1, 20, "")],
    "sampleset-only": [("hit", 0, 20, "", dict(sample_set=2))],
}
# target configurations: list of (kind, own hitsound_set, own file)
TGT = {
    "hit": [("hit", 0, "")],
    "hit-with-own-sounds": [("hit", 10, "own.wav")],
    "two-hits": [("hit", 0, ""), ("hit", 4, "")],
    "hit+hold": [("hit", 0, ""), ("hold", 2, "own.wav")],
    "hold": [("hold", 0, "")],
    "three": [("hit", 0, ""), ("hit", 0, ""), ("hold", 0, "")],
}


def _osu(ctx, spec, tag, is_src):
    C = classes("osu")
    m = C["Map"]()
    hits, holds = [], []
    for i, s in enumerate(spec):
        t = ctx.real("%st%d" % (tag, i))
        if is_src:
            kind, hs, vol, f = s[:4]
            kw = dict(hitsound_set=hs, volume=vol, hitsound_file=f)
            kw.update(s[4] if len(s) > 4 else {})
        else:
            kind, hs, f = s
            kw = dict(hitsound_set=hs, volume=15, hitsound_file=f)
        if kind == "hit":
            hits.append(C["Hit"](t, i % 4, **kw))
        else:
            ln = ctx.real("%slen%d" % (tag, i))
            ctx.assume(ln >= 0)
            holds.append(C["Hold"](t, i % 4, ln, **kw))
    m.hits, m.holds = C["HitList"](hits), C["HoldList"](holds)
    m.bpms = C["BpmList"]([C["Bpm"](0, 120)])
    m.circle_size = 4
    return m


def _notes(m):
    out = []
    h = m.hits.df
    for i in range(len(h)):
        out.append(dict(kind="hit", t=col(h, "offset")[i], c=col(h, "column")[i], len=None, hs=col(h, "hitsound_set")[i],
                        vol=col(h, "volume")[i], file=col(h, "hitsound_file")[i]))
    h = m.holds.df
    for i in range(len(h)):
        out.append(dict(kind="hold", t=col(h, "offset")[i], c=col(h, "column")[i], len=col(h, "length")[i], hs=col(h, "hitsound_set")[i],
                        vol=col(h, "volume")[i], file=col(h, "hitsound_file")[i]))
    return out


def _samples(m):
    d = m.samples.df
    return [dict(t=col(d, "offset")[i], file=col(d, "sample_file")[i]) for i in range(len(d))]


def _clusters(ctx, notes):
    """group notes by time (equality forks)."""
    cl = []
    for n in notes:
        for c in cl:
            if ctx.eq(c[0]["t"], n["t"]):
                c.append(n)
                break
        else:
            cl.append([n])
    return cl


def _same_note(ctx, a, b):
    if a["kind"] != b["kind"]:
        return False
    conds = [ctx.eq(a["t"], b["t"]), a["c"] == b["c"]]
    if a["kind"] == "hold":
        conds.append(False if isna(a["len"]) or isna(b["len"]) else ctx.eq(a["len"], b["len"]))
    return ctx.all(*conds)


def _bits(x):
    return 0 if isna(x) else int(x)


def ob_copy(sname, tname, ctx):
    from reamber.algorithms.osu.hitsound_copy import hitsound_copy

    src = _osu(ctx, SRC[sname], "s", True)
    tgt = _osu(ctx, TGT[tname], "g", False)
    ssnap, tsnap = MapSnap(src), MapSnap(tgt)
    out = hitsound_copy(src, tgt)
    ssnap.same(ctx, src, "source")
    tsnap.same(ctx, tgt, "target")
    ctx.check("result.is-new-object", out is not tgt and out is not src)
    S, T, R = _notes(src), _notes(tgt), _notes(out)
    ev = _samples(out)
    # 1. exactly the target's notes
    ctx.check("notes.count", len(R) == len(T), note="%d vs %d" % (len(R), len(T)))
    if len(R) == len(T):
        alts = [ctx.all(*[_same_note(ctx, R[i], T[p[i]]) for i in range(len(R))]) for p in itertools.permutations(range(len(T)))]
        ctx.check("notes.are-the-targets-notes", ctx.any(*alts))
    for k in ("hits", "holds"):
        df = out.objs[k].df
        names = set(type(out.objs[k])._item_class()._props)
        ctx.check("result.%s.columns" % k, set(df.columns) == names, note="%s" % list(df.columns))
        bad = [c for c in df.columns if any(isna(v) for v in col(df, c))]
        ctx.check("result.%s.no-missing-values" % k, not bad, note="%s" % bad)
    # 2./3. conservation per source time
    sounding = [n for n in S if _bits(n["hs"]) or n["file"] or any(v for v in (0,))]
    clusters = _clusters(ctx, S)
    claimed = [False] * len(R)
    for ci, cl in enumerate(clusters):
        Tm = cl[0]["t"]
        here = [i for i, r in enumerate(R) if ctx.eq(r["t"], Tm)]
        for i in here:
            claimed[i] = True
        # volume groups (concrete)
        vols = {}
        for n in cl:
            g = vols.setdefault(n["vol"], dict(c=0, f=0, w=0, files=[]))
            b = _bits(n["hs"])
            g["c"] += 1 if b & CLAP else 0
            g["f"] += 1 if b & FINISH else 0
            g["w"] += 1 if b & WHISTLE else 0
            if n["file"]:
                g["files"].append(n["file"])
        need = sum(max(g["c"], g["f"], g["w"]) + len(g["files"]) for g in vols.values())
        room = need <= len(here)
        for bit, key, name in ((CLAP, "c", "clap"), (FINISH, "f", "finish"), (WHISTLE, "w", "whistle")):
            cs = sum(g[key] for g in vols.values())
            cr = sum(1 for i in here if _bits(R[i]["hs"]) & bit)
            ctx.check("time%d.%s.no-more-than-source" % (ci, name), cr <= cs, note="source %d result %d" % (cs, cr))
            if room:
                ctx.check("time%d.%s.all-carried-when-there-is-room" % (ci, name), cr == cs, note="source %d result %d (target notes at that time: %d, needed: %d)" % (cs, cr, len(here), need))
        files = [f for g in vols.values() for f in g["files"]]
        for f in sorted(set(files)):
            ns = files.count(f)
            on_notes = sum(1 for i in here if R[i]["file"] == f)
            as_events = sum(1 for e in ev if e["file"] == f and ctx.eq(e["t"], Tm))
            ctx.check("time%d.sample[%s].kept-on-a-note-or-as-event" % (ci, f), on_notes + as_events >= ns, note="source %d, on notes %d, event samples %d" % (ns, on_notes, as_events))
            ctx.check("time%d.sample[%s].not-multiplied" % (ci, f), on_notes + as_events <= ns, note="source %d, on notes %d, event samples %d" % (ns, on_notes, as_events))
        for i in here:
            if R[i]["file"]:
                ctx.check("time%d.note-sample-from-source" % ci, R[i]["file"] in files, note=repr(R[i]["file"]))
    # notes at times the source has nothing: carry nothing
    for i, r in enumerate(R):
        if not claimed[i]:
            ctx.check("silent-note%d.carries-nothing" % i, (_bits(r["hs"]) & 14) == 0 and r["file"] == "", note="hitsound_set=%r file=%r" % (r["hs"], r["file"]))
    # no invented event samples
    for j, e in enumerate(ev):
        ctx.check("event%d.from-source" % j, ctx.any(*[ctx.all(ctx.eq(e["t"], n["t"]), e["file"] == n["file"]) for n in S if n["file"]]))
    for i, r in enumerate(R):
        ctx.observe("r%d.t" % i, r["t"])


def obligations(tier, seed):
    quick = tier == "quick"
    obs = []
    pairs = list(itertools.product(SRC, TGT))
    if quick:
        keep_t = {"hit", "hit-with-own-sounds", "hit+hold", "two-hits"}
        pairs = [(s, t) for s, t in pairs if t in keep_t and not (len(SRC[s]) == 3 and t != "hit")]
    for s, t in pairs:
        obs.append(Obligation("C18/%s/%s" % (s, t), partial(ob_copy, s, t),
                              bound="source osu chart %s (%d notes), target %s (%d notes); every note time and hold length symbolic; sounds as named" % (s, len(SRC[s]), t, len(TGT[t])),
                              max_paths=6000, timeout_s=300))
    return obs
