"""C14, writers: write() of each writable game leaves the chart untouched and returns text that shares nothing with it."""
from __future__ import annotations

from functools import partial

from symx.run import Obligation
from .c09 import Spec
from .memcharts import mem_chart, WRITABLE


def ob_writer(game, keys, perm, ctx):
    from .c14 import Snap

    sp = Spec(ctx, keys, "a", zero_start=game == "bms")
    m = mem_chart(ctx, sp, game, perm=perm)
    s = Snap(m)
    out = m.write()
    s.same(ctx, "after-write")
    if game == "qua":
        from . import c06

        c06._write(m)
        s.same(ctx, "after-second-write")
    ctx.check("write.returns-text", isinstance(out, (str, bytes, list)))


def obligations(tier, seed):
    obs = []
    for g in WRITABLE:
        for perm in (False, True):
            obs.append(Obligation("C14/write/%s/%s" % (g, "rows-reversed" if perm else "rows-in-order"), partial(ob_writer, g, 4, perm),
                                  bound="%s chart on the beat grid (symbolic beat lengths / start time), write(); chart snapshotted before and after" % g))
    return obs
