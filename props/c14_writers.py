"""C14, writers: write() of each writable game leaves the chart untouched (filled in with the format harnesses)."""


def obligations(tier, seed):
    return []
