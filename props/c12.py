"""C12 - Stacking writes through: editing the stack equals editing each list.

The real ``Map.stack()`` / ``MapSet.stack()`` objects are driven with symbolic operands on charts whose
times/lengths/bpms are symbolic; the oracle applies the same assignment row by row to a plain
list-of-dicts copy of every list.
"""
from __future__ import annotations

import itertools
import operator
from functools import partial

import pandas as pd

from symx.run import Obligation
from symx.core import isna
from .common import GAMES, SV_GAMES, classes, build_map, cell_same, col

OPS = {"+": operator.add, "-": operator.sub, "*": operator.mul, "/": operator.truediv}


def _apply(x, op, v):
    return OPS[op](x, v)


def _iop(obj, attr, op, v):
    """``obj.attr op= v`` through the real property protocol."""
    cur = getattr(obj, attr)
    setattr(obj, attr, OPS[op](cur, v))


# ---------------------------------------------------------------------------------------------
def _chart(ctx, game, shape, tag="", ints=False):
    """shape: full (2 hits, 1 hold, 1 bpm, 1 sv + SM extras) | noholds | single."""
    C = classes(game)
    mk = (lambda n: ctx.int(n, -1000, 1000)) if ints else ctx.real
    t = [mk("%st%d" % (tag, i)) for i in range(5)]
    ln = mk(tag + "len0")
    b = ctx.real(tag + "bpm0")
    ctx.assume(b > 0)
    extra = {}
    if shape == "full":
        hits, holds, bpms = [(t[0], 0), (t[1], 2)], [(t[2], 1, ln)], [(t[3], b)]
        svs = [(t[4], ctx.real(tag + "mult"))] if game in SV_GAMES else ()
        if game == "sm":
            extra = dict(rolls=[C["Roll"](t[4], 3, ln)], mines=[C["Mine"](t[1], 1)], stops=[C["Stop"](t[0], ln)])
    elif shape == "small":
        hits, holds, bpms = [(t[0], 0)], [(t[2], 1, ln)], [(t[3], b)]
        svs = ()
    elif shape == "noholds":
        hits, holds, bpms, svs = [(t[0], 1), (t[1], 3)], [], [(t[3], b)], ()
    else:
        hits, holds, bpms, svs = [(t[0], 2)], [], [], ()
    if game == "bms":
        hits = [h + (dict(sample=b"a.wav"),) for h in hits]
    m = build_map(game, hits, holds, bpms, svs, extra)
    return m


def _relabel(m, how):
    """Give the lists non-default row labels with the library's own operations / a plain concat."""
    if how == "default":
        return
    for k, tl in list(m.objs.items()):
        if len(tl) == 0:
            continue
        if how == "gaps":  # a filter that drops the first of >=2 rows, else keeps the single row under a shifted label
            if len(tl) >= 2:
                m.objs[k] = tl[[False] + [True] * (len(tl) - 1)]
            else:
                df = tl.df.copy()
                df.index = [7]
                m.objs[k] = type(tl)(df)
        elif how == "reversed":
            m.objs[k] = tl[::-1]
        elif how == "duplicated":  # pd.concat without re-indexing: labels 0..n-1, 0..n-1
            m.objs[k] = type(tl)(pd.concat([tl.df, tl.df]))


def _model(m):
    """name -> (class, columns, rows as list of dicts)"""
    out = {}
    for k, tl in m.objs.items():
        df = tl.df
        data = {c: col(df, c) for c in df.columns}
        out[k] = (type(tl), list(df.columns), [{c: data[c][i] for c in df.columns} for i in range(len(df))])
    return out


def _compare(ctx, label, m, model):
    ctx.check(label + ".lists", list(m.objs) == list(model), note="%s" % list(m.objs))
    for k, (cls, cols, rows) in model.items():
        tl = m.objs[k]
        ctx.check("%s.%s.type" % (label, k), type(tl) is cls, note=type(tl).__name__)
        ctx.check("%s.%s.columns" % (label, k), sorted(map(str, tl.df.columns)) == sorted(cols), note="%s vs %s" % (list(tl.df.columns), cols))
        ctx.check("%s.%s.len" % (label, k), len(tl) == len(rows), note="%d vs %d" % (len(tl), len(rows)))
        if len(tl) != len(rows) or sorted(map(str, tl.df.columns)) != sorted(cols):
            continue
        data = {c: col(tl.df, c) for c in cols}
        for c in cols:
            ok = ctx.all(*[cell_same(ctx, data[c][i], rows[i][c]) for i in range(len(rows))])
            ctx.check("%s.%s[%s]" % (label, k, c), ok, note="%r vs expected %r" % (data[c][:3], [r[c] for r in rows][:3]))
            if c in ("offset", "length", "bpm", "column"):
                for i in range(len(rows)):
                    ctx.observe("%s.%s[%s][%d]" % (label, k, c, i), data[c][i])


def _included(model, include):
    if include is None:
        return list(model)
    return [k for k, (cls, _c, _r) in model.items() if issubclass(cls, include)]


def _cmp(a, how, b):
    if isna(a) or isna(b):
        return False
    return {">": a > b, ">=": a >= b, "<": a < b, "<=": a <= b, "==": a == b}[how]


# ---------------------------------------------------------------------------------------------
def do_op(ctx, i, op, stack, model, include):
    """Apply one stack operation to the real stack and to the model."""
    kind = op[0]
    keys = _included(model, include)
    if kind == "col":
        _, prop, o, vkind = op
        v = _operand(ctx, i, vkind)
        _iop(stack, prop, o, v)
        for k in keys:
            cls, cols, rows = model[k]
            if prop in cols:
                for r in rows:
                    r[prop] = _apply(r[prop], o, v)
    elif kind == "set":  # stack.prop = scalar
        _, prop = op
        v = ctx.real("v%d" % i)
        setattr(stack, prop, v)
        for k in keys:
            cls, cols, rows = model[k]
            if prop in cols:
                for r in rows:
                    r[prop] = v
    elif kind == "loc":
        _, conds, targets, o, vkind = op
        v = _operand(ctx, i, vkind)
        ths = [ctx.real("th%d_%d" % (i, j)) if len(c) == 2 else c[2] for j, c in enumerate(conds)]
        mask = None
        for (ccol, how, *_), th in zip(conds, ths):
            s = getattr(stack, ccol)
            part = {">": s > th, ">=": s >= th, "<": s < th, "<=": s <= th, "==": s == th}[how]
            mask = part if mask is None else (mask & part)
        tcols = targets if len(targets) > 1 else targets[0]
        cur = stack.loc[mask, tcols]
        stack.loc[mask, tcols] = OPS[o](cur, v)
        for k in keys:
            cls, cols, rows = model[k]
            for r in rows:
                sel = True
                for (ccol, how, *_), th in zip(conds, ths):
                    if ccol not in cols or not _cmp(r[ccol], how, th):
                        sel = False
                        break
                if sel:
                    for tc in targets:
                        if tc in cols:
                            r[tc] = _apply(r[tc], o, v)
    elif kind == "read":  # reading the stack must not change anything and must show the current values
        _, prop = op
        got = list(getattr(stack, prop))
        exp = [r.get(prop) for k in keys for r in model[k][2]]
        ctx.check("op%d.read[%s].len" % (i, prop), len(got) == len(exp))
        if len(got) == len(exp):
            ctx.check("op%d.read[%s]" % (i, prop), ctx.all(*[cell_same(ctx, a, b) for a, b in zip(got, exp)]))
    else:
        raise KeyError(kind)


def _operand(ctx, i, vkind):
    v = ctx.real("v%d" % i)
    if vkind == "nz":
        ctx.assume(v != 0)
    elif vkind == "half":  # an odd multiple of 1/2: integral inputs give non-integral results
        k = ctx.int("k%d" % i, -3, 3)
        ctx.assume(v * 2 == k * 2 + 1)
    return v


def ob_map(game, shape, labels, history, restack, include_names, ctx, ints=False):
    m = _chart(ctx, game, shape, ints=ints)
    _relabel(m, labels)
    model = _model(m)
    include = None
    if include_names:
        C = classes(game)
        include = tuple(C[n] for n in include_names)
    stack = m.stack(include) if include else m.stack()
    for i, op in enumerate(history):
        if restack and i > 0:
            stack = m.stack(include) if include else m.stack()
        do_op(ctx, i, op, stack, model, include)
        _compare(ctx, "after-op%d" % i, m, model)


def ob_mixed(game, ctx):
    """edits through differently restricted stacks of one chart, in sequence: each must see the others' results"""
    C = classes(game)
    m = _chart(ctx, game, "full")
    model = _model(m)
    steps = [(None, COL_OPS[2]), ((C["HitList"],), COL_OPS[7]), (None, COL_OPS[0]), ((C["HoldList"], C["BpmList"]), COL_OPS[0]), (None, LOC_OPS[2])]
    for i, (inc, op) in enumerate(steps):
        st = m.stack(inc) if inc else m.stack()
        do_op(ctx, i, op, st, model, inc)
        _compare(ctx, "after-step%d" % i, m, model)


def ob_mapset(kind, history, variant, ctx):
    """MapSet.stack(): row-wise broadcast over charts of different lengths."""
    if kind == "generic":
        from reamber.base.MapSet import MapSet

        maps = [_chart(ctx, "osu", "full" if variant != "first-lacks" else "noholds", "a"), _chart(ctx, "osu", "full", "b")]
        ms = MapSet(maps)
    else:
        C = classes(kind)
        first = "noholds" if variant == "first-lacks" else "full"
        second = "single" if variant == "short-second" else "full"
        maps = [_chart(ctx, kind, first, "a"), _chart(ctx, kind, second, "b")]
        ms = C["MapSet"]()
        ms.maps = maps
    models = [_model(m) for m in maps]
    stack = ms.stack()
    for i, op in enumerate(history):
        _, prop, o, vkind = op
        v = _operand(ctx, i, vkind)
        _iop(stack, prop, o, v)
        for model in models:
            for k, (cls, cols, rows) in model.items():
                if prop in cols:
                    for r in rows:
                        r[prop] = _apply(r[prop], o, v)
        ctx.check("after-op%d.maps" % i, len(ms.maps) == 2 and ms.maps[0] is maps[0] and ms.maps[1] is maps[1])
        for j, (m, model) in enumerate(zip(ms.maps, models)):
            _compare(ctx, "after-op%d.map%d" % (i, j), m, model)


# ---------------------------------------------------------------------------------------------
COL_OPS = [("col", "offset", "+", "any"), ("col", "offset", "-", "any"), ("col", "offset", "*", "any"), ("col", "offset", "/", "nz"),
           ("col", "length", "*", "any"), ("col", "length", "/", "nz"), ("col", "bpm", "*", "any"), ("col", "column", "+", "any"),
           ("col", "metronome", "*", "any"), ("set", "offset")]
LOC_OPS = [("loc", (("offset", ">"),), ("offset",), "+", "any"), ("loc", (("offset", "<="),), ("column",), "+", "any"),
           ("loc", (("column", ">=", 1),), ("offset", "length"), "*", "any"), ("loc", (("column", "==", 1), ("offset", "<=")), ("offset",), "*", "any"),
           ("loc", (("length", ">"),), ("length",), "/", "nz"), ("loc", (("bpm", ">"),), ("bpm", "offset"), "*", "any"),
           ("loc", (("column", "<", 2),), ("column",), "+", "any")]
SYM_LOC = (0, 1, 3)  # LOC_OPS whose threshold on the offsets is symbolic: every row forks, so they run on the small chart
READS = [("read", "offset"), ("read", "column")]
OSU_PROPS = ["hitsound_set", "sample_set", "sample_set_index", "addition_set", "custom_set", "volume", "kiai"]
GAME_OPS = {"osu": [("col", p, "+", "any") for p in OSU_PROPS] + [("set", p) for p in OSU_PROPS + ["hitsound_file"]], "sm": [], "qua": [("set", "keysounds")],
            "bms": [("set", "sample")], "o2j": []}
HALF_OPS = [("col", "offset", "*", "half"), ("col", "column", "*", "half"), ("loc", (("column", ">=", 1),), ("column",), "*", "half")]


def _n(op):
    def s(x):
        return "(" + ",".join(s(y) for y in x) + ")" if isinstance(x, tuple) else str(x)

    return s(op).replace("/", "div")


def obligations(tier, seed):
    quick = tier == "quick"
    obs = []
    B = "%s chart (%s; <=2 hits, 1 hold, 1 tempo point, 1 SV, SM extras), row labels %s; all times/lengths/bpms, operands and thresholds symbolic"
    for g in GAMES:
        ops1 = COL_OPS + LOC_OPS + GAME_OPS[g]
        for lab in ("default", "gaps", "reversed", "duplicated"):
            for op in ops1:
                symloc = op in [LOC_OPS[j] for j in SYM_LOC]
                if quick and lab != "default" and op not in (COL_OPS[0], COL_OPS[4], LOC_OPS[0], LOC_OPS[2], LOC_OPS[3]):
                    continue
                if quick and lab == "duplicated" and symloc and op is not LOC_OPS[0]:
                    continue
                shape = "small" if symloc else "full"
                obs.append(Obligation("C12/map/%s/%s/%s/%s" % (g, shape, lab, _n(op)), partial(ob_map, g, shape, lab, [op], False, None),
                                      bound=B % (g, shape, lab) + "; one operation", max_paths=3000, timeout_s=150))
        for shape in ("noholds", "single"):
            for op in (COL_OPS[0], COL_OPS[4], LOC_OPS[0], LOC_OPS[2]):
                obs.append(Obligation("C12/map/%s/%s/default/%s" % (g, shape, _n(op)), partial(ob_map, g, shape, "default", [op], False, None),
                                      bound=B % (g, shape + " (empty lists)", "default") + "; one operation"))
        # integer-typed inputs with half-integer operands (results must not be forced back to integers)
        for op in HALF_OPS:
            obs.append(Obligation("C12/map/%s/full/int-dtype/%s" % (g, _n(op)), partial(ob_map, g, "full", "default", [op], False, None, ints=True),
                                  bound=B % (g, "full, integer-valued times", "default") + "; operand an odd multiple of 1/2"))
        # restricted stacks
        for inc in (("HoldList",), ("HitList", "BpmList"), ("BpmList",)):
            for op in (COL_OPS[0], LOC_OPS[0]):
                obs.append(Obligation("C12/map/%s/full/include=%s/%s" % (g, "+".join(inc), _n(op)), partial(ob_map, g, "full", "gaps", [op], False, inc),
                                      bound=B % (g, "full", "gaps") + "; stack restricted to %s" % (inc,)))
    # histories of two operations on the same stack object and with re-stacking
    pair_games = ["osu", "sm"] if quick else GAMES
    pair_ops = [COL_OPS[0], COL_OPS[2], COL_OPS[4], COL_OPS[7], LOC_OPS[0], LOC_OPS[6], LOC_OPS[2], READS[0]]
    for g in pair_games:
        for a, b in itertools.product(pair_ops, repeat=2):
            for restack in (False, True):
                if quick and restack and (a[0] == "read" or b[0] == "read"):
                    continue
                obs.append(Obligation("C12/hist2/%s/%s/%s/%s" % (g, "restack" if restack else "same-stack", _n(a), _n(b)),
                                      partial(ob_map, g, "small", "gaps", [a, b], restack, None),
                                      bound=B % (g, "small: 1 hit, 1 hold, 1 tempo point", "gaps") + "; two operations, %s" % ("re-stacked in between" if restack else "same stack object"),
                                      max_paths=4000, timeout_s=200))
    if not quick:
        ops3 = [COL_OPS[0], COL_OPS[4], LOC_OPS[0], LOC_OPS[2], LOC_OPS[6]]
        for g in ("osu", "sm", "bms"):
            for h in itertools.product(ops3, repeat=3):
                obs.append(Obligation("C12/hist3/%s/%s" % (g, "/".join(_n(o) for o in h)), partial(ob_map, g, "small", "reversed", list(h), False, None),
                                      bound=B % (g, "small", "reversed") + "; three operations on one stack object", max_paths=40000, timeout_s=1800))
    for g in GAMES:
        obs.append(Obligation("C12/mixed-stacks/%s" % g, partial(ob_mixed, g), bound="%s chart: full stack, stack restricted to hits, full stack, stack restricted to holds+tempo, full stack (conditional); symbolic operands" % g))
    for kind in ("sm", "o2j", "generic"):
        for variant in ("same", "first-lacks", "short-second"):
            if kind == "generic" and variant == "short-second":
                continue
            for op in (COL_OPS[0], COL_OPS[2], COL_OPS[4], COL_OPS[5], COL_OPS[6], ("col", "offset", "*", "half")):
                obs.append(Obligation("C12/mapset/%s/%s/%s" % (kind, variant, _n(op)), partial(ob_mapset, kind, [op], variant),
                                      bound="%s mapset of 2 charts (%s), one whole-column operation, symbolic values" % (kind, variant)))
            obs.append(Obligation("C12/mapset/%s/%s/two-ops" % (kind, variant), partial(ob_mapset, kind, [COL_OPS[4], COL_OPS[0]], variant),
                                  bound="%s mapset of 2 charts (%s), two operations on one stack" % (kind, variant)))
    return obs
