"""C08 - Converting between games preserves chart content exactly, from any source state."""
from __future__ import annotations

from functools import partial

from symx.run import Obligation
from symx.core import isna
from .common import classes, build_map, MapSnap, cell_same, col, SV_GAMES, same_multiset

# converter name -> (source game, target game, source is mapset, result is list|mapset|map, shift kw)
CONVERTERS = {
    "BMSToOsu": ("bms", "osu"), "BMSToQua": ("bms", "qua"), "BMSToSM": ("bms", "sm"),
    "O2JToBMS": ("o2j", "bms"), "O2JToOsu": ("o2j", "osu"), "O2JToQua": ("o2j", "qua"), "O2JToSM": ("o2j", "sm"),
    "OsuToBMS": ("osu", "bms"), "OsuToQua": ("osu", "qua"), "OsuToSM": ("osu", "sm"),
    "QuaToBMS": ("qua", "bms"), "QuaToOsu": ("qua", "osu"), "QuaToSM": ("qua", "sm"),
    "SMToBMS": ("sm", "bms"), "SMToOsu": ("sm", "osu"), "SMToQua": ("sm", "qua"),
}
SHIFT = {"OsuToBMS": 0, "QuaToBMS": 0, "O2JToBMS": 1}  # default of move_right_by
HISTORIES = ["fresh", "filter", "sorted-rev", "append", "stack", "rate", "deepcopy", "stack-loc", "slice"]

TITLE, ARTIST, CREATOR, DIFF = "Ttl", "Art", "Cre", "Dif"


def conv(name):
    import reamber.algorithms.convert as C

    return getattr(C, name)


def _src_chart(ctx, game, tag, n=2, keys=4):
    """one source chart: n hits, n holds, 2 tempo points, SVs for SV games; all times symbolic."""
    t = ctx.reals(tag + "t", 2 * n + 3)
    ln = ctx.reals(tag + "len", n)
    b = ctx.reals(tag + "bpm", 2)
    for x in b:
        ctx.assume(x > 0)
    hits = [(t[i], keys - 1 if i == n - 1 else i % 3) for i in range(n)]  # the last hit keeps the key count at 4 through every history
    holds = [(t[n + i], (i + 1) % 4, ln[i]) for i in range(n)]
    bpms = [(t[2 * n], b[0]), (t[2 * n + 1], b[1])]
    svs = [(t[2 * n + 2], ctx.real(tag + "mult"))] if game in SV_GAMES else ()
    if game == "bms":
        hits = [h + (dict(sample=b"a.wav"),) for h in hits]
        holds = [h + (dict(sample=b"b.wav"),) for h in holds]
    m = build_map(game, hits, holds, bpms, svs)
    return m


SM_TYPES = {3: "dance-threepanel", 4: "dance-single", 5: "pump-single", 6: "dance-solo", 7: "kb7-single", 8: "dance-double", 9: "pnm-nine"}


def _source(ctx, game, keys=4):
    """-> (source object handed to the converter, list of its charts, expected meta per chart)."""
    C = classes(game)
    if game in ("sm", "o2j"):
        maps = [_src_chart(ctx, game, "a", keys=keys), _src_chart(ctx, game, "b", n=1)]
        ms = C["MapSet"]()
        ms.maps = maps
        ms.title, ms.artist = TITLE, ARTIST
        if game == "sm":
            ms.credit = CREATOR
            ms.offset = 0.0
            ms.sample_start = 12.0
            maps[0].chart_type, maps[1].chart_type = SM_TYPES[keys], "dance-single"
            maps[0].difficulty, maps[0].difficulty_val, maps[0].description = "Hard", 7, "DescA"
            maps[1].difficulty, maps[1].difficulty_val, maps[1].description = "Easy", 2, "DescB"
            names = [("Hard", "7", "DescA"), ("Easy", "2", "DescB")]
        else:
            ms.creator = CREATOR
            ms.level = [3, 14, 25]
            ms.bpm = 120.0
            names = [("3",), ("14",)]
        return ms, maps, names
    m = _src_chart(ctx, game, "a", keys=keys)
    if game == "osu":
        m.title, m.artist, m.creator, m.version = TITLE, ARTIST, CREATOR, DIFF
        m.title_unicode, m.artist_unicode = TITLE, ARTIST
        m.circle_size = keys
        m.tags = ["x", "y"]
    elif game == "qua":
        m.title, m.artist, m.creator, m.difficulty_name = TITLE, ARTIST, CREATOR, DIFF
        m.mode = {4: "Keys4", 7: "Keys7", 8: "Keys8"}[keys]
    elif game == "bms":
        m.title, m.artist, m.version = TITLE.encode(), ARTIST.encode(), DIFF.encode()
    return m, [m], [(DIFF,)]


def _apply_history(ctx, h, charts):
    """Put every source chart into the state ``h`` using the library's own operations (in place on the
    chart objects, or returning replacement charts)."""
    out = []
    for ci, m in enumerate(charts):
        tag = "h%d" % ci
        if h == "fresh":
            pass
        elif h == "filter":  # leaves gaps in the row labels
            if ci == 0:
                b = ctx.real(tag + "b")
                for k in ("holds", "bpms"):
                    setattr(m, k, m.objs[k].after(b, include_end=True))
        elif h == "filter-all":
            b = ctx.real(tag + "b")
            # (the chart must stay convertible: the hit on the highest lane keeps the key count, one tempo point remains)
            cols_, offs_ = col(m.hits.df, "column"), col(m.hits.df, "offset")
            top = max(cols_)
            for c_, t_ in zip(cols_, offs_):
                if c_ == top:
                    ctx.assume(t_ >= b)
            ctx.assume(col(m.bpms.df, "offset")[-1] >= b)
            for k in list(m.objs):
                if k in ("hits", "holds", "bpms", "svs"):
                    setattr(m, k, m.objs[k].after(b, include_end=True))
        elif h == "slice":
            for k in ("hits", "holds", "bpms"):
                setattr(m, k, m.objs[k][1:])
        elif h == "sorted-rev":
            for k in ("hits", "holds", "bpms"):
                setattr(m, k, m.objs[k].sorted(reverse=True))
        elif h == "append":
            x = ctx.real(tag + "x")
            m.hits = m.hits.append(m.hits[0])
            if len(m.holds):  # (an earlier step of a two-step history may have filtered every hold away)
                hh = m.holds[0]
                hh.offset = x
                m.holds = m.holds.append(hh, sort=True)
        elif h == "stack":
            d = ctx.real(tag + "d")
            m.stack().offset += d
        elif h == "stack-loc":
            d = ctx.real(tag + "d")
            st = m.stack()
            st.loc[st.column >= 1, "offset"] += d
        elif h == "stack-loc-sym":
            if ci == 0:
                d, th = ctx.real(tag + "d"), ctx.real(tag + "th")
                st = m.stack((type(m.holds), type(m.bpms)))
                st.loc[st.offset > th, "offset"] += d
        elif h == "rate":
            r = ctx.real(tag + "r")
            ctx.assume(r > 0)
            m = m.rate(r)
        elif h == "deepcopy":
            m = m.deepcopy()
        else:
            raise KeyError(h)
        out.append(m)
    return out


def _declared(tl):
    return set(type(tl)._item_class()._props)


def _check_lists(ctx, label, src, dst, shift, both_sv):
    """dst (a chart of the target game) carries exactly src's hits/holds/bpms(/svs)."""
    for k, tl in dst.objs.items():
        names = _declared(tl)
        cols = list(tl.df.columns)
        extra = sorted(str(c) for c in set(cols) - names)
        missing = sorted(names - set(cols))
        tag = "".join("+" + c for c in extra) + "".join("-" + c for c in missing)
        ctx.check("%s.%s.only-target-fields%s" % (label, k, "(%s)" % tag if tag else ""), not tag, note="%s vs declared %s" % (cols, sorted(names)))
        bad = [c for c in cols if any(isna(v) for v in col(tl.df, c))]
        ctx.check("%s.%s.no-missing-values" % (label, k), not bad, note="missing values in column(s) %s" % bad)
    want = [("hits", ("offset", "column")), ("holds", ("offset", "column", "length")), ("bpms", ("offset", "bpm"))]
    if both_sv:
        want.append(("svs", ("offset", "multiplier")))
    for k, fields in want:
        s, d = src.objs[k].df, dst.objs[k].df
        ctx.check("%s.%s.len" % (label, k), len(s) == len(d), note="%d source rows -> %d" % (len(s), len(d)))
        if len(s) != len(d):
            continue
        # the objects as a multiset of rows (the property does not fix the row order of the result); per-column facets are kept
        # as a diagnosis when the rows happen to be in the same order
        have = [f for f in fields if f in d.columns]
        srows = list(zip(*[[(x + shift) if f == "column" else x for x in col(s, f)] for f in have])) if have else []
        drows = list(zip(*[col(d, f) for f in have])) if have else []
        ctx.check("%s.%s.same-objects" % (label, k), len(have) == len(fields) and not any(isna(y) for r in drows for y in r) and same_multiset(ctx, drows, srows),
                  note="source %r -> %r (fields %s)" % (srows[:3], drows[:3], have))
        for f in have:
            for i, y in enumerate(col(d, f)):
                ctx.observe("%s.%s[%s][%d]" % (label, k, f, i), y)


def _txt(x):
    if isinstance(x, (bytes, bytearray)):
        return bytes(x).decode("shift_jis")
    return x


def _check_meta(ctx, label, tgt_game, dst, holder, src_game, name_parts):
    """title / artist / creator / difficulty name arrive in the target's fields (DESIGN appendix A, C08)."""
    meta = holder if tgt_game == "sm" else dst
    ctx.check(label + ".meta.title", _txt(meta.title) == TITLE, note=repr(meta.title))
    ctx.check(label + ".meta.artist", _txt(meta.artist) == ARTIST, note=repr(meta.artist))
    if src_game != "bms" and tgt_game != "bms":  # BMS has no creator field
        got = meta.credit if tgt_game == "sm" else meta.creator
        ctx.check(label + ".meta.creator", got == CREATOR, note=repr(got))
    if tgt_game == "osu":
        name = dst.version
    elif tgt_game == "qua":
        name = dst.difficulty_name
    elif tgt_game == "bms":
        name = _txt(dst.version)
    else:
        name = "%s|%s" % (dst.description, dst.difficulty)
    if src_game == "sm":  # generated name "<difficulty> <meter>": the identifying parts must be present
        ok = (name_parts[0] in name and name_parts[1] in name) or name_parts[2] in name
    else:
        ok = all(p in name for p in name_parts)
    ctx.check(label + ".meta.difficulty-name", ok, note="source name parts %r -> target %r" % (name_parts, name))


def ob_convert(cname, history, ctx, merge=False):
    src_game, tgt_game = CONVERTERS[cname]
    cv = conv(cname)
    src, charts, names = _source(ctx, src_game, ctx.params.get("keys", 4))
    new = _apply_history(ctx, history, charts)
    if src_game in ("sm", "o2j"):
        src.maps = new
    else:
        src = new[0]
    charts = new
    snaps = [MapSnap(m) for m in charts]
    kw = {}
    shift = SHIFT.get(cname, 0)
    if cname in SHIFT and ctx.params.get("shift") is not None:
        shift = ctx.params["shift"]
        kw["move_right_by"] = shift
    if ctx.params.get("raise_bad_mode") is not None:
        kw["raise_bad_mode"] = ctx.params["raise_bad_mode"]
    out = cv.convert_merge(src) if merge else cv.convert(src, **kw)
    # ---- shape: one target chart per source chart --------------------------------------------------
    T = classes(tgt_game)
    if tgt_game == "sm":
        sets = out if isinstance(out, list) else [out]
        ctx.check("result.types", all(isinstance(s, T["MapSet"]) for s in sets))
        dst = [(m, s) for s in sets for m in s.maps]
    else:
        lst = out if isinstance(out, list) else [out]
        ctx.check("result.types", all(isinstance(m, T["Map"]) for m in lst))
        dst = [(m, None) for m in lst]
    ctx.check("result.one-chart-per-source-chart", len(dst) == len(charts), note="%d source chart(s) -> %d target chart(s)" % (len(charts), len(dst)))
    both_sv = src_game in SV_GAMES and tgt_game in SV_GAMES
    for i, ((m, holder), s) in enumerate(zip(dst, charts)):
        label = "chart%d" % i
        ctx.check(label + ".type", isinstance(m, T["Map"]))
        _check_lists(ctx, label, s, m, shift, both_sv)
        _check_meta(ctx, label, tgt_game, m, holder, src_game, names[i])
    for i, (sn, m) in enumerate(zip(snaps, charts)):
        sn.same(ctx, m, "source%d" % i)


def obligations(tier, seed):
    quick = tier == "quick"
    obs = []
    for cname, (sg, tg) in CONVERTERS.items():
        for h in HISTORIES + ([] if quick else ["filter-all", "stack-loc-sym"]):
            obs.append(Obligation("C08/%s/%s" % (cname, h), partial(ob_convert, cname, h),
                                  bound="%s on a %s source (%s) with 2 hits, 2 holds, 2 tempo points%s per chart, all times/lengths/bpms symbolic; source history: %s"
                                        % (cname, sg, "2 charts" if sg in ("sm", "o2j") else "1 chart", ", 1 SV" if sg in SV_GAMES else "", h),
                                  max_paths=3000, timeout_s=200))
        if cname in SHIFT:
            for sh in ((0, 2) if quick else (0, 1, 2, 3)):  # explicit values, including the one that is falsy
                obs.append(Obligation("C08/%s/shift%d" % (cname, sh), partial(ob_convert, cname, "stack"), params=dict(shift=sh),
                                      bound="%s with move_right_by=%d after a stack edit" % (cname, sh)))
    # other key counts; and targets that cannot represent the key count, converted with raise_bad_mode=False
    KEYS = {"OsuToQua": (7, 8), "OsuToSM": (3, 6, 7, 8), "OsuToBMS": (7, 8), "QuaToOsu": (7, 8), "QuaToSM": (7, 8), "QuaToBMS": (7,),
            "SMToOsu": (6, 7, 8), "SMToQua": (7, 8), "SMToBMS": (6, 8), "BMSToOsu": (7, 8), "BMSToQua": (7, 8), "BMSToSM": (6, 7, 8)}
    for cname, ks in KEYS.items():
        for kk in (ks[:1] if quick else ks):
            obs.append(Obligation("C08/%s/keys%d" % (cname, kk), partial(ob_convert, cname, "stack"), params=dict(keys=kk),
                                  bound="%s on a %d-key source after a stack edit" % (cname, kk)))
    for cname, kk in (("OsuToQua", 5), ("OsuToSM", 5), ("BMSToQua", 6), ("SMToQua", 6)):
        obs.append(Obligation("C08/%s/bad-mode-keys%d" % (cname, kk), partial(ob_convert, cname, "fresh"), params=dict(keys=kk, raise_bad_mode=False),
                              bound="%s on a %d-key source with raise_bad_mode=False (the target has no such mode): content must still be carried" % (cname, kk)))
    for h in HISTORIES:
        obs.append(Obligation("C08/O2JToSM.merge/%s" % h, partial(ob_convert, "O2JToSM", h, merge=True),
                              bound="O2JToSM.convert_merge on a 2-chart O2Jam mapset; source history: %s" % h))
    if not quick:
        import itertools

        for cname in ("OsuToQua", "QuaToOsu", "SMToBMS", "O2JToSM", "BMSToSM", "OsuToBMS"):
            for h1, h2 in itertools.product(["filter", "sorted-rev", "stack", "rate", "append"], repeat=2):
                obs.append(Obligation("C08/%s/%s+%s" % (cname, h1, h2), partial(_ob2, cname, h1, h2),
                                      bound="%s, source history of two steps: %s then %s" % (cname, h1, h2), max_paths=6000, timeout_s=400))
    return obs


def _ob2(cname, h1, h2, ctx):
    src_game, tgt_game = CONVERTERS[cname]
    orig = _apply_history

    def twice(ctx_, h, charts):
        charts = orig(ctx_, h1, charts)
        # second step uses distinct variable names
        class _C:  # thin proxy renaming fresh variables of the second step
            def __getattr__(self, k):
                return getattr(ctx_, k)

            def real(self, name):
                return ctx_.real("s2" + name)

        return orig(_C(), h2, charts)

    globals()["_apply_history"] = twice
    try:
        ob_convert(cname, "two-step", ctx)
    finally:
        globals()["_apply_history"] = orig
