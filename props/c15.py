"""C15 - A chart is a set of timed objects: results do not depend on row order.

Product program: the same chart is built twice from the same solver variables, once with its rows in the given order
and once permuted by the library's own means (unsorted construction, append without sort, reverse sort, concat);
every listed operation is run on both within the same path exploration and the two results must denote the same set
of objects / the same values.
"""
from __future__ import annotations

import itertools
from functools import partial

import pandas as pd

from symx.run import Obligation
from symx.core import isna, SymNum
from .common import GAMES, SV_GAMES, classes, build_map, col, same_term, cell_same

HOWS = ["construct", "append", "reverse-sort", "concat"]


def _specs(ctx, game, n, one_column=False):
    t = ctx.reals("t", 3 * n + 1)
    ln = ctx.reals("len", n)
    b = ctx.reals("bpm", n)
    for x in b:
        ctx.assume(x > 0)
    for x in ln:
        ctx.assume(x >= 0)
    hits = [(t[i], 3 if i == n - 1 else i % 3) for i in range(n)]  # key count stays 4
    holds = [(t[n + i], (i + 1) % 4, ln[i]) for i in range(n)]
    bpms = [(t[2 * n + i], b[i]) for i in range(n)]
    if one_column:  # every note in one column: the per-column order is what full-LN depends on
        hits = [(h[0], 1) for h in hits]
        holds = [(h[0], 1, h[2]) for h in holds]
    # distinct tempo times (two tempo points never share a time); tempo points precede the notes
    for i in range(n):
        for j in range(i + 1, n):
            ctx.assume(bpms[i][0] != bpms[j][0])
    svs = []
    if game in SV_GAMES:
        svs = [(t[3 * n], ctx.real("mult"))]
        ctx.assume(svs[0][1] > 0)
    if game == "bms":
        hits = [h + (dict(sample=b"h%d.wav" % i),) for i, h in enumerate(hits)]
        holds = [h + (dict(sample=b"l%d.wav" % i),) for i, h in enumerate(holds)]
    return hits, holds, bpms, svs


def _mk_list(cls, item, rows, how, perm):
    """rows in order ``perm`` obtained the way ``how`` says."""
    items = [item(*r[:-1], **r[-1]) if isinstance(r[-1], dict) else item(*r) for r in rows]
    if how == "construct":
        return cls([items[i] for i in perm])
    if how == "append":  # one by one, without sort
        tl = cls([items[perm[0]]])
        for i in perm[1:]:
            tl = tl.append(items[i])
        return tl
    if how == "reverse-sort":  # row order decided by the library, labels permuted
        return cls(items).sorted(reverse=True)
    if how == "concat":
        parts = [cls([items[i]]).df for i in perm]
        return cls(pd.concat(parts))
    raise KeyError(how)


def _charts(ctx, game, n, how, perm, no_holds=False, no_hits=False, one_column=False):
    C = classes(game)
    hits, holds, bpms, svs = _specs(ctx, game, n, one_column)
    if no_holds:
        holds = []
    if no_hits:
        hits = []
    a = build_map(game, hits, holds, bpms, svs)
    b = build_map(game, [], [], [], [])
    b.hits = _mk_list(C["HitList"], C["Hit"], hits, how, perm) if hits else C["HitList"]([])
    b.holds = _mk_list(C["HoldList"], C["Hold"], holds, how, perm) if holds else C["HoldList"]([])
    b.bpms = _mk_list(C["BpmList"], C["Bpm"], bpms, how, perm)
    if game in SV_GAMES:
        b.svs = C["SvList"]([C["Sv"](*s) for s in svs])
    for m in (a, b):
        if game == "osu":
            m.circle_size = 4
            m.title = m.artist = m.creator = m.version = "x"
        if game == "qua":
            m.mode = "Keys4"
            m.title = m.artist = m.creator = m.difficulty_name = "x"
        if game == "bms":
            m.title = m.artist = m.version = b"x"
    return a, b, bpms, hits, holds


def _rows(tl, cols):
    df = tl.df
    data = [col(df, c) for c in cols if c in df.columns]
    return [tuple(d[i] for d in data) for i in range(len(df))]


def _same_multiset(ctx, A, B):
    """same multiset of row tuples: syntactic matching first, solver-decided permutation search for the rest."""
    if len(A) != len(B):
        return False
    used = [False] * len(B)
    rest = []
    for a in A:
        for j, b in enumerate(B):
            if not used[j] and len(a) == len(b) and all(same_term(x, y) for x, y in zip(a, b)):
                used[j] = True
                break
        else:
            rest.append(a)
    left = [b for j, b in enumerate(B) if not used[j]]
    if not rest:
        return True
    if len(rest) > 4:
        return False
    alts = []
    for p in itertools.permutations(left):
        alts.append(ctx.all(*[ctx.all(*[cell_same(ctx, x, y) for x, y in zip(a, b)]) for a, b in zip(rest, p)]))
    return ctx.any(*alts)


NOTE_COLS = dict(hits=("offset", "column"), holds=("offset", "column", "length"), bpms=("offset", "bpm"), svs=("offset", "multiplier"))


def _same_chart(ctx, label, x, y, extra=()):
    ctx.check(label + ".type", type(x) is type(y))
    for k in x.objs:
        cols = NOTE_COLS.get(k, ("offset",)) + tuple(e for e in extra if e in x.objs[k].df.columns and k in ("hits", "holds"))
        ctx.check("%s.%s.same-objects" % (label, k), _same_multiset(ctx, _rows(x.objs[k], cols), _rows(y.objs[k], cols)),
                  note="%r vs %r" % (_rows(x.objs[k], cols)[:3], _rows(y.objs[k], cols)[:3]))


def _domain_analysis(ctx, bpms, hits, holds):
    first = bpms[0][0]
    for t_, _b in bpms[1:]:
        ctx.assume(first < t_)
    notes = [h[0] for h in hits] + [h[0] for h in holds]
    for x in notes:
        ctx.assume(first <= x)
    last = hits[-1][0]
    for x in notes + [t_ for t_, _b in bpms]:
        ctx.assume(x <= last)


def ob_op(game, n, how, perm, opname, ctx):
    analysis = opname.startswith(("dominant", "scroll", "sv_normalize"))
    a, b, bpms, hits, holds = _charts(ctx, game, n, how, perm, no_holds=analysis or opname.endswith("hits-only"), no_hits=opname.endswith("holds-only"), one_column=opname.startswith("full_ln"))
    if opname in ("dominant_bpm", "scroll_speed", "sv_normalize", "scroll_speed-override", "sv_normalize-override"):
        _domain_analysis(ctx, bpms, hits, holds)
        if game in SV_GAMES:
            svt = col(a.svs.df, "offset")[0]
            ctx.assume(svt <= hits[-1][0])
    if opname == "rate":
        r = ctx.real("r")
        ctx.assume(r > 0)
        _same_chart(ctx, "rate", a.rate(r), b.rate(r))
    elif opname.startswith("full_ln"):
        from reamber.algorithms.generate import full_ln

        g, th = ctx.real("gap"), ctx.real("thr")
        ctx.assume(g >= 0)
        ctx.assume(th >= 0)
        # distinct times inside a column: with stacked notes either processing order is accepted, so they are outside this comparison
        notes = [(h[0], h[1]) for h in hits] + [(h[0], h[1]) for h in holds]
        for (t1, c1), (t2, c2) in itertools.combinations(notes, 2):
            if c1 == c2:
                ctx.assume(t1 != t2)
        _same_chart(ctx, "full_ln", full_ln(a, gap=g, ln_as_hit_thres=th), full_ln(b, gap=g, ln_as_hit_thres=th))
    elif opname == "dominant_bpm":
        from reamber.algorithms.utils import dominant_bpm

        x, y = dominant_bpm(a), dominant_bpm(b)
        # ties for the maximum may resolve either way: compare only when the maximum is unique
        ctx.check("dominant_bpm.same-value-or-tie", ctx.any(ctx.eq(x, y), _tie(ctx, bpms, hits[-1][0])), note="%r vs %r" % (ctx.value(x), ctx.value(y)))
    elif opname.startswith("scroll_speed"):
        from reamber.algorithms.analysis import scroll_speed

        kw = {}
        if opname.endswith("override"):
            o = ctx.real("ov")
            ctx.assume(o > 0)
            kw = dict(override_bpm=o)
        else:
            ctx.assume(ctx.neg(_tie(ctx, bpms, hits[-1][0])))
        x, y = scroll_speed(a, **kw), scroll_speed(b, **kw)
        X = list(zip(list(x.index), list(x.array) if x.dtype == object else x.tolist()))
        Y = list(zip(list(y.index), list(y.array) if y.dtype == object else y.tolist()))
        ctx.check("scroll_speed.same-breakpoints-and-values", _same_multiset(ctx, X, Y), note="%r vs %r" % (X[:3], Y[:3]))
    elif opname.startswith("sv_normalize"):
        from reamber.algorithms.generate import sv_normalize

        kw = {}
        if opname.endswith("override"):
            o = ctx.real("ov")
            ctx.assume(o > 0)
            kw = dict(override_bpm=o)
        else:
            ctx.assume(ctx.neg(_tie(ctx, bpms, hits[-1][0])))
        x, y = sv_normalize(a, **kw), sv_normalize(b, **kw)
        ctx.check("sv_normalize.same-svs", _same_multiset(ctx, _rows(x, ("offset", "multiplier")), _rows(y, ("offset", "multiplier"))))
    elif opname.startswith("convert-"):
        import reamber.algorithms.convert as CV

        cv = getattr(CV, opname[8:])
        ra, rb = cv.convert(a), cv.convert(b)
        _same_chart(ctx, opname, _one(ra), _one(rb), extra=("hitsound_file", "sample", "keysounds"))
        # file-level fields of a converted map set (they place the written timeline): same for both row orders
        for fld in ("offset", "sample_start", "sample_length", "bpm"):
            if hasattr(ra, "maps") and hasattr(ra, fld):
                x, y = getattr(ra, fld), getattr(rb, fld)
                ctx.check("%s.set-level.%s" % (opname, fld), cell_same(ctx, x, y) if not (x is None or y is None) else x is y, note="%r vs %r" % (ctx.value(x) if x is not None else x, ctx.value(y) if y is not None else y))
    else:
        raise KeyError(opname)


def _one(x):
    from reamber.base.MapSet import MapSet

    if isinstance(x, MapSet):
        return x.maps[0]
    if isinstance(x, list):
        return x[0]
    return x


def _tie(ctx, bpms, last):
    """the maximum of the total active time per bpm value is attained by two different values."""
    from .c19 import _totals

    groups = _totals(ctx, bpms, last)
    alts = []
    for (v1, t1), (v2, t2) in itertools.combinations(groups, 2):
        alts.append(ctx.all(ctx.eq(t1, t2), *[ctx.ge(t1, t3) for _v, t3 in groups]))
    return ctx.any(*alts) if alts else False


def ob_hitsound(how, perm, ctx):
    from reamber.algorithms.osu.hitsound_copy import hitsound_copy

    C = classes("osu")
    st = ctx.reals("s", 2)
    gt = ctx.reals("g", 3)
    ln = ctx.real("len")
    ctx.assume(ln >= 0)
    # distinct times among the source notes and among the target notes: the slot a sound lands in is then determined
    ctx.assume(st[0] != st[1])
    for x, y in itertools.combinations(gt, 2):
        ctx.assume(x != y)
    src_rows = [(st[0], 0, dict(hitsound_set=2, volume=40)), (st[1], 1, dict(hitsound_set=8, volume=60, hitsound_file="a.wav"))]
    tgt_rows = [(gt[0], 0, {}), (gt[1], 2, {}), (gt[2], 3, {})]

    def mk(rows, how_, perm_):
        m = C["Map"]()
        m.hits = _mk_list(C["HitList"], C["Hit"], rows, how_, perm_)
        m.bpms = C["BpmList"]([C["Bpm"](0, 120)])
        m.circle_size = 4
        return m

    sa, ta = mk(src_rows, "construct", range(2)), mk(tgt_rows, "construct", range(3))
    sb, tb = mk(src_rows, how, perm[:2] if max(perm[:2]) < 2 else (1, 0)), mk(tgt_rows, how, perm)
    ta.holds = C["HoldList"]([C["Hold"](gt[0], 1, ln)])
    tb.holds = C["HoldList"]([C["Hold"](gt[0], 1, ln)])
    # the hold shares gt[0] with a hit: two target notes at one time (two slots)
    x, y = hitsound_copy(sa, ta), hitsound_copy(sb, tb)
    cols = ("offset", "column", "hitsound_set", "hitsound_file", "volume")
    # per time the multiset of carried sounds must agree (which of two simultaneous notes carries a sound may differ)
    for k, cs in (("hits", ("offset", "hitsound_set", "hitsound_file")), ("holds", ("offset", "length", "hitsound_set", "hitsound_file"))):
        pass
    A = _rows(x.hits, ("offset", "hitsound_set", "hitsound_file")) + _rows(x.holds, ("offset", "hitsound_set", "hitsound_file"))
    B = _rows(y.hits, ("offset", "hitsound_set", "hitsound_file")) + _rows(y.holds, ("offset", "hitsound_set", "hitsound_file"))
    ctx.check("hitsound_copy.same-sounds-per-time", _same_multiset(ctx, A, B), note="%r vs %r" % (A, B))
    ctx.check("hitsound_copy.same-notes", ctx.all(_same_multiset(ctx, _rows(x.hits, ("offset", "column")), _rows(y.hits, ("offset", "column"))),
                                                   _same_multiset(ctx, _rows(x.holds, ("offset", "column", "length")), _rows(y.holds, ("offset", "column", "length")))))
    ctx.check("hitsound_copy.same-event-samples", _same_multiset(ctx, _rows(x.samples, ("offset", "sample_file")), _rows(y.samples, ("offset", "sample_file"))))


def ob_hitsound_overflow(perm, ctx):
    """more sounding source notes at one time than the target has notes there, in different volume groups: which sounds
    survive must not depend on the row order of the source"""
    from reamber.algorithms.osu.hitsound_copy import hitsound_copy

    C = classes("osu")
    T, U = ctx.real("T"), ctx.real("U")
    ctx.assume(T != U)
    src_rows = [(T, 0, dict(hitsound_set=2, volume=60)), (T, 1, dict(hitsound_set=4, volume=20)), (T, 2, dict(hitsound_set=8, volume=40)), (U, 3, dict(hitsound_set=2, volume=30))]
    tgt_rows = [(T, 0, {}), (U, 1, {})]

    def mk(rows, order):
        m = C["Map"]()
        m.hits = C["HitList"]([C["Hit"](*r[:-1], **r[-1]) for r in [rows[i] for i in order]])
        m.bpms = C["BpmList"]([C["Bpm"](0, 120)])
        m.circle_size = 4
        return m

    x = hitsound_copy(mk(src_rows, range(4)), mk(tgt_rows, range(2)))
    y = hitsound_copy(mk(src_rows, perm), mk(tgt_rows, (1, 0)))
    A = _rows(x.hits, ("offset", "hitsound_set", "hitsound_file", "volume"))
    B = _rows(y.hits, ("offset", "hitsound_set", "hitsound_file", "volume"))
    ctx.check("hitsound_copy.overflow.same-sounds-per-time", _same_multiset(ctx, A, B), note="%r vs %r" % (A, B))
    ctx.check("hitsound_copy.overflow.same-event-samples", _same_multiset(ctx, _rows(x.samples, ("offset", "sample_file")), _rows(y.samples, ("offset", "sample_file"))))


def obligations(tier, seed):
    quick = tier == "quick"
    obs = []
    for perm in ((2, 0, 1, 3), (1, 2, 0, 3), (3, 2, 1, 0)) if quick else [p for p in itertools.permutations(range(4)) if list(p) != [0, 1, 2, 3]]:
        obs.append(Obligation("C15/osu/hitsound_copy-overflow/%s" % "".join(map(str, perm)), partial(ob_hitsound_overflow, perm),
                              bound="hitsound_copy with three sounding source notes at one (symbolic) time in three volume groups and one target note there; source rows in order %s" % (perm,)))
    ops_all = ["rate", "full_ln", "full_ln-hits-only", "full_ln-holds-only", "dominant_bpm", "scroll_speed", "scroll_speed-override"]
    conv = {"osu": ["convert-OsuToQua", "convert-OsuToSM", "convert-OsuToBMS"], "qua": ["convert-QuaToOsu", "convert-QuaToSM", "convert-QuaToBMS"],
            "bms": ["convert-BMSToOsu", "convert-BMSToQua", "convert-BMSToSM"], "sm": [], "o2j": []}
    for g in GAMES:
        ops = ops_all + (["sv_normalize", "sv_normalize-override"] if g in SV_GAMES else []) + conv[g]
        for opname in ops:
            for n in ((2,) if quick else (2, 3)):
                perms = [p for p in itertools.permutations(range(n)) if list(p) != list(range(n))]
                if n == 3:  # (3 rows: the reversal and one rotation, on three games - every further row multiplies the paths by the sort's branching)
                    if g not in ("osu", "qua", "bms") or opname in ("scroll_speed", "scroll_speed-override", "full_ln", "convert-QuaToSM"):
                        continue  # (these do not finish within the time budget with 3 rows per list: they stay at 2)
                    perms = [(2, 1, 0), (1, 2, 0)]
                for how in HOWS:
                    for perm in (perms if how in ("construct", "append", "concat") else perms[:1]):
                        if quick and g not in ("osu", "bms") and how not in ("append", "reverse-sort"):
                            continue
                        if quick and opname.startswith("convert") and how not in ("append", "reverse-sort"):
                            continue
                        if n == 3 and how == "concat":
                            continue
                        pn = "".join(map(str, perm))
                        obs.append(Obligation("C15/%s/%s/n%d/%s/%s" % (g, opname, n, how, pn), partial(ob_op, g, n, how, perm, opname),
                                              bound="%s chart with %d hits, %d holds, %d tempo points%s (symbolic values) vs the same chart with rows permuted (%s, order %s); operation %s"
                                                    % (g, n, n, n, ", 1 SV" if g in SV_GAMES else "", how, pn, opname), max_paths=6000, timeout_s=300))
    for how in HOWS:
        for perm in ([(2, 0, 1), (1, 0, 2)] if how != "reverse-sort" else [(2, 1, 0)]):
            obs.append(Obligation("C15/osu/hitsound_copy/%s/%s" % (how, "".join(map(str, perm))), partial(ob_hitsound, how, perm),
                                  bound="hitsound_copy: source (2 notes) and target (3 hits + 1 hold) with rows permuted (%s %s), symbolic times" % (how, perm), max_paths=8000, timeout_s=400))
    from . import c15_writers

    obs.extend(c15_writers.obligations(tier, seed))
    return obs
