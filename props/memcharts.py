"""In-memory charts of the four writable games built from a c09.Spec, and the denotation of what their writers produce
(shared by the file parts of C13, C14 and C15)."""
from __future__ import annotations

from fractions import Fraction as F

from oracles import osu as ref_osu, sm as ref_sm, bms as ref_bms, qua as ref_qua
from .common import classes, build_map
from . import c04, c06

WRITABLE = ["osu", "qua", "sm", "bms"]


def mem_chart(ctx, sp, game, perm=False):
    """the chart of ``sp`` as an in-memory object of ``game`` (rows reversed when perm)"""
    hits = [(sp.t(p), c) for c, p in sp.hits]
    holds = [(sp.t(p), c, sp.t(e) - sp.t(p)) for c, p, e in sp.holds]
    bpms = [(sp.t(sp.tb[i]), sp.bpm(i)) for i in range(2)]
    if game == "bms":
        hits = [h + (dict(sample=b"a.wav"),) for h in hits]
    if perm:
        hits, holds, bpms = hits[::-1], holds[::-1], bpms[::-1]
    m = build_map(game, hits, holds, bpms, ())
    if game == "osu":
        m.circle_size = sp.keys
        m.title, m.title_unicode, m.artist, m.artist_unicode, m.creator, m.version = "Song", "Song", "art", "art", "me", "Hard"
        C = classes("osu")
        ev = [C["Sample"](sp.t(F(3)), "e.wav", 60), C["Sample"](sp.t(F(1)), "f.wav", 50)]
        m.samples = C["SampleList"](ev[::-1] if perm else ev)
        m.preview_time = 1234
        return m
    if game == "qua":
        m.mode = "Keys%d" % sp.keys
        m.title, m.artist, m.creator, m.difficulty_name = "Song", "art", "me", "Hard"
        return m
    if game == "bms":
        m.title, m.artist, m.version = b"Song", b"art", b"Hard"
        m.samples = {b"01": b"a.wav"}
        return m
    C = classes("sm")
    from . import c02

    m.chart_type = c02.TYPES[sp.keys]
    m.description, m.difficulty, m.difficulty_val = "Hard", "Hard", 9
    sms = C["MapSet"]()
    sms.maps = [m]
    sms.title, sms.artist, sms.credit = "Song", "art", "me"
    sms.offset = sp.T0
    sms.sample_start, sms.sample_length = 1500.0, 10000.0
    if getattr(sp, "stops", None):
        st = [C["Stop"](sp.t(b), ln) for b, ln in sp.stops]
        m.stops = C["StopList"](st[::-1] if perm else st)
    return sms


def written(ctx, game, obj):
    """write with the real writer and interpret with the reference reader -> canonical denotation"""
    if game == "osu":
        d = ref_osu.parse(ctx, obj.write())
        return dict(kind="ms", hits=[(o["col"], o["t"]) for o in d["hits"]], holds=[(o["col"], o["t"], o["end"]) for o in d["holds"]],
                    tempo=[(o["t"], o["bpm"]) for o in d["bpms"]], samples=[(o["t"], o["file"]) for o in d["samples"]], extra=dict(preview=ctx.num(d["meta"]["PreviewTime"])),
                    ill=d["ill_formed"])
    if game == "qua":
        doc = c06._write(obj)
        x = ref_qua.denote(doc)
        return dict(kind="ms", hits=[(o["col"], o["t"]) for o in x["hits"]], holds=[(o["col"], o["t"], o["t"] + o["len"]) for o in x["holds"]],
                    tempo=[(o["t"], o["bpm"]) for o in x["bpms"]], samples=[], extra=dict(preview=doc.get("SongPreviewTime")), ill=ref_qua.schema_violations(doc, c06._int_like))
    if game == "sm":
        d = ref_sm.parse(ctx, obj.write())
        ch = d["charts"][0]
        return dict(kind="beats", hits=[(o["col"], o["beat"]) for o in ch["objects"] if o["kind"] == "hit"],
                    holds=[(o["col"], o["beat"], o["end"]) for o in ch["objects"] if o["kind"] == "hold"], tempo=sorted(d["bpms"], key=lambda p: p[0]),
                    offset_ms=d["offset_ms"], extra=dict(sample_start=d["header"].get("#SAMPLESTART"), sample_length=d["header"].get("#SAMPLELENGTH")), ill=ch["ill_formed"],
                    stops=[tuple(ctx.num(x) for x in s.strip().split("=")) for s in d["stops"]])
    if game == "bms":
        d = ref_bms.parse(ctx, obj.write().split(b"\r\n"), c04.ref_layout("BME"))
        fil = [(F(0), d["bpm0"])]
        for p, v in d["tempo"]:
            if p == fil[-1][0]:
                fil[-1] = (p, v)
            else:
                fil.append((p, v))
        return dict(kind="beats", hits=[(o["col"], o["pos"]) for o in d["hits"]], holds=[(o["col"], o["pos"], o["end"]) for o in d["holds"]], tempo=fil, extra={}, ill=d["ill_formed"])
    raise KeyError(game)
