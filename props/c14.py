"""C14 - Query, generate, convert and write operations never modify their inputs.

Every listed operation is run (symbolically: all paths of the operation are covered, values are solver variables)
on inputs whose every cell object, column set, dtype and row label was snapshotted; afterwards the inputs must be
identical.  For results documented as copies every numeric cell of the result is then overwritten in place and the
inputs are compared with their snapshots again (shared mutable state).
"""
from __future__ import annotations

import itertools
from functools import partial

import pandas as pd

from symx.run import Obligation
from symx.core import isna
from .common import GAMES, SV_GAMES, classes, build_map, MapSnap, DfSnap, cell_same, col

NUMERIC = ("offset", "column", "length", "bpm", "multiplier", "metronome", "volume")


def _chart(ctx, game, tag="", state="default"):
    # the subject is the *operation* (its arguments are symbolic); two times, one length and one bpm of the chart are
    # symbolic so that ties/orders arise, the rest are distinct constants
    base = 1000.0 if tag == "" else 1500.0
    t = [base + 100.0 * i for i in range(6)]
    t[1], t[2] = ctx.real(tag + "t1"), ctx.real(tag + "t2")
    ln = [ctx.real(tag + "len0"), 50.0]
    b = [120.0, ctx.real(tag + "bpm1")]
    ctx.assume(b[1] > 0)
    ctx.assume(ln[0] >= 0)
    # tempo times are solver variables pinned by assumptions (keeps the column object-typed like the others)
    t[4], t[5] = ctx.real(tag + "bt0"), ctx.real(tag + "bt1")
    ctx.assume(t[4] == 900)
    ctx.assume(t[5] == 950)
    hits = [(t[0], 0), (t[1], 3)]
    holds = [(t[2], 1, ln[0]), (t[3], 2, ln[1])]
    bpms = [(t[4], b[0]), (t[5], b[1])]
    svs = [(t[1], ctx.real(tag + "mult"))] if game in SV_GAMES else ()
    if game == "bms":
        hits = [h + (dict(sample=b"a.wav"),) for h in hits]
    m = build_map(game, hits, holds, bpms, svs)
    if game == "osu":
        C = classes("osu")
        m.circle_size = 4
        m.title = m.artist = m.creator = m.version = "x"
        m.samples = C["SampleList"]([C["Sample"](t[0], "s.wav", 40)])
    if game == "qua":
        m.mode = "Keys4"
        m.title = m.artist = m.creator = m.difficulty_name = "x"
    if game == "bms":
        m.title = m.artist = m.version = b"x"
    if state == "reversed":  # unsorted rows with non-default labels
        for k in ("hits", "holds", "bpms"):
            setattr(m, k, m.objs[k].sorted(reverse=True))
    elif state == "tempo-unsorted":
        m.bpms = m.bpms[::-1]
    return m


def _lists_of(obj):
    from reamber.base.lists.TimedList import TimedList
    from reamber.base.Map import Map
    from reamber.base.MapSet import MapSet

    if isinstance(obj, TimedList):
        return [obj]
    if isinstance(obj, Map):
        out = list(obj.objs.values())
        for k, v in vars(obj).items():
            if isinstance(v, TimedList):
                out.append(v)
        return out
    if isinstance(obj, MapSet):
        return [x for m in obj.maps for x in _lists_of(m)]
    if isinstance(obj, (list, tuple)):
        return [x for o in obj for x in _lists_of(o)]
    return []


class Snap:
    def __init__(self, obj):
        from reamber.base.Map import Map
        from reamber.base.MapSet import MapSet
        from reamber.base.lists.TimedList import TimedList

        self.obj = obj
        if isinstance(obj, Map):
            self.s = [("map", MapSnap(obj), obj)]
        elif isinstance(obj, MapSet):
            import copy

            self.s = [("map%d" % i, MapSnap(m), m) for i, m in enumerate(obj.maps)]
            self.maps = list(obj.maps)
            self.fields = {k: copy.deepcopy(v) for k, v in vars(obj).items() if k != "maps"}
        elif isinstance(obj, TimedList):
            self.s = [("list", DfSnap(obj.df), obj)]
            self.df_id = id(obj.df)
        else:
            raise TypeError(type(obj))

    def same(self, ctx, label):
        from reamber.base.MapSet import MapSet

        for name, snap, o in self.s:
            if isinstance(snap, MapSnap):
                snap.same(ctx, o, "%s.%s" % (label, name))
            else:
                snap.same(ctx, o.df, "%s.%s" % (label, name))
        if isinstance(self.obj, MapSet):
            ctx.check(label + ".maps", len(self.obj.maps) == len(self.maps) and all(a is b for a, b in zip(self.obj.maps, self.maps)))
            for k, v in self.fields.items():
                ctx.check("%s.field[%s]" % (label, k), cell_same(ctx, getattr(self.obj, k), v))


def _scribble(res):
    """Overwrite every numeric cell of every list reachable from the result, in place."""
    n = 0
    for tl in _lists_of(res):
        df = tl.df
        for j, c in enumerate(df.columns):
            if c in NUMERIC:
                for i in range(len(df)):
                    df.iloc[i, j] = 987654.0 + n
                    n += 1
    return n


def run_op(ctx, inputs, call, copies):
    snaps = [(name, Snap(o)) for name, o in inputs.items()]
    res = call()
    for name, s in snaps:
        s.same(ctx, "after-call.%s" % name)
    if copies and res is not None:
        ctx.check("result.is-not-the-input", all(res is not o for o in inputs.values()))
        _scribble(res)
        for name, s in snaps:
            s.same(ctx, "after-editing-result.%s" % name)
    return res


# ---------------------------------------------------------------------------------------------
def list_ops(ctx, tl, other, item, hold):
    ops = {
        "after": (lambda: tl.after(ctx.real("b"), include_end=True), True),
        "before": (lambda: tl.before(ctx.real("b")), True),
        "between": (lambda: tl.between(ctx.real("lo"), ctx.real("hi")), True),
        "sorted": (lambda: tl.sorted(), True),
        "sorted-rev": (lambda: tl.sorted(reverse=True), True),
        "append-item": (lambda: tl.append(item), True),
        "append-item-sort": (lambda: tl.append(item, sort=True), True),
        "append-list": (lambda: tl.append(other), True),
        "append-list-sort": (lambda: tl.append(other, sort=True), True),
        "append-df": (lambda: tl.append(other.df, sort=True), True),
        "empty-append-list-sort": (lambda: type(tl)([]).append(tl, sort=True), True),
        "empty-append-list": (lambda: type(tl)([]).append(tl), True),
        "append-empty": (lambda: tl.append(type(tl)([]), sort=True), True),
        "move_start_to": (lambda: tl.move_start_to(ctx.real("to")), True),
        "move_end_to": (lambda: tl.move_end_to(ctx.real("to")), True),
        "deepcopy": (lambda: tl.deepcopy(), True),
        "mask": (lambda: tl[[True] + [False] * (len(tl) - 1)], True),
        "slice": (lambda: tl[0:1], False),
        "getitem": (lambda: tl[0], False),
        "iterate": (lambda: [x.offset for x in tl], False),
        "first-last": (lambda: (tl.first_offset(), tl.last_offset(), tl.first_last_offset()), False),
        "time_diff": (lambda: tl.time_diff(), False),
        "from-list": (lambda: type(tl)(list(tl)), True),
    }
    if hold:
        ops["after-tail"] = (lambda: tl.after(ctx.real("b"), include_tail=True), True)
        ops["before-nohead"] = (lambda: tl.before(ctx.real("b"), include_head=False), True)
        ops["between-flags"] = (lambda: tl.between(ctx.real("lo"), ctx.real("hi"), include_ends=(False, True), include_head=False, include_tail=True), True)
    return ops


LIST_OP_NAMES = ["after", "before", "between", "sorted", "sorted-rev", "append-item", "append-item-sort", "append-list", "append-list-sort", "append-df",
                 "empty-append-list-sort", "empty-append-list", "append-empty", "move_start_to", "move_end_to", "deepcopy", "mask", "slice", "getitem", "iterate",
                 "first-last", "time_diff", "from-list"]
HOLD_OP_NAMES = ["after-tail", "before-nohead", "between-flags"]


def ob_list(game, which, opname, state, ctx, second=None):
    m = _chart(ctx, game, state=state)
    m2 = _chart(ctx, game, tag="o")
    tl, other = m.objs[which], m2.objs[which]
    item = other[0]
    ops = list_ops(ctx, tl, other, item, which == "holds")
    call, copies = ops[opname]
    inputs = dict(receiver=tl, argument=other)
    run_op(ctx, inputs, call, copies)
    if second:
        ops2 = list_ops(ctx, tl, other, item, which == "holds")
        call2, copies2 = ops2[second]
        run_op(ctx, inputs, call2, copies2)


def map_ops(ctx, game, m):
    import reamber.algorithms.convert as CV
    from reamber.algorithms.generate import full_ln
    from reamber.algorithms.utils import dominant_bpm
    from reamber.algorithms.analysis import scroll_speed
    from reamber.algorithms.pattern import Pattern

    def rate():
        r = ctx.real("r")
        ctx.assume(r > 0)
        return m.rate(r)

    def fl():
        g, th = ctx.real("gap"), ctx.real("thr")
        ctx.assume(g >= 0)
        ctx.assume(th >= 0)
        return full_ln(m, gap=g, ln_as_hit_thres=th)

    def pattern():
        p = Pattern.from_note_lists([m.hits, m.holds[0:1]])
        v = ctx.real("v")
        ctx.assume(v >= 0)
        p.group(v_window=v, h_window=1, avoid_jack=True)
        return None

    ops = {
        "rate": (rate, True),
        "deepcopy": (lambda: m.deepcopy(), True),
        "stack-read": (lambda: [list(m.stack().offset), list(m.stack().column)] and None, False),
        "getitem": (lambda: m[type(m.hits)] and None, False),
        "full_ln": (fl, True),
        "dominant_bpm": (lambda: dominant_bpm(m) and None, False),
        "scroll_speed": (lambda: scroll_speed(m) is None and None, False),
        "scroll_speed-override": (lambda: scroll_speed(m, override_bpm=ctx.real("ov") + 0) is None and None, False),
        "pattern": (pattern, False),
        "to_timing_map": (lambda: m.bpms.to_timing_map() and None, False),
        "describe-lists": (lambda: [tl.describe() for tl in m.objs.values()] and None, False),
    }
    if game in SV_GAMES:
        from reamber.algorithms.generate import sv_normalize

        def svn_ov():
            o = ctx.real("ov")
            ctx.assume(o > 0)
            return sv_normalize(m, override_bpm=o)

        ops["sv_normalize"] = (lambda: sv_normalize(m), True)
        ops["sv_normalize-override"] = (svn_ov, True)
    src = {"osu": "Osu", "qua": "Qua", "bms": "BMS"}.get(game)
    if src:
        for name in CV.__all__:
            if name.startswith(src + "To"):
                ops["convert-" + name] = ((lambda name=name: getattr(CV, name).convert(m)), True)
    return ops


def map_op_names(game):
    names = ["rate", "deepcopy", "stack-read", "getitem", "full_ln", "dominant_bpm", "scroll_speed", "scroll_speed-override", "pattern", "to_timing_map", "describe-lists"]
    if game in SV_GAMES:
        names += ["sv_normalize", "sv_normalize-override"]
    names += {"osu": ["convert-OsuToBMS", "convert-OsuToQua", "convert-OsuToSM"], "qua": ["convert-QuaToBMS", "convert-QuaToOsu", "convert-QuaToSM"],
              "bms": ["convert-BMSToOsu", "convert-BMSToQua", "convert-BMSToSM"]}.get(game, [])
    return names


def _domain(ctx, m, opname):
    """analysis routines need a tempo point at or before the first object and none after the last one."""
    if opname.startswith(("dominant", "scroll", "sv_normalize")):
        for tl in m.objs.values():
            for x in col(tl.df, "offset"):
                ctx.assume(x >= 900.0)
        last = col(m.hits.df, "offset")
        ctx.assume(ctx.any(*[x >= 950.0 for x in last]))


def ob_map(game, opname, state, ctx, second=None):
    m = _chart(ctx, game, state=state)
    _domain(ctx, m, opname)
    if second:
        _domain(ctx, m, second)
    ops = map_ops(ctx, game, m)
    call, copies = ops[opname]
    run_op(ctx, dict(chart=m), call, copies)
    if second:
        call2, copies2 = map_ops(ctx, game, m)[second]
        run_op(ctx, dict(chart=m), call2, copies2)


def ob_mapset(game, opname, ctx):
    import reamber.algorithms.convert as CV

    C = classes(game)
    ms = C["MapSet"]()
    ms.maps = [_chart(ctx, game, "a"), _chart(ctx, game, "b", state="reversed")]
    ms.title, ms.artist = "T", "A"
    if game == "sm":
        ms.offset = 0.0
        ms.credit = "C"
        for m in ms.maps:
            m.chart_type = "dance-single"
    else:
        ms.creator = "C"
        ms.level = [1, 2, 3]

    def rate():
        r = ctx.real("r")
        ctx.assume(r > 0)
        return ms.rate(r)

    ops = {"rate": (rate, True), "deepcopy": (lambda: ms.deepcopy(), True),
           "stack-read": (lambda: ms.stack().offset is None and None, False)}
    pre = {"sm": "SM", "o2j": "O2J"}[game]
    for name in CV.__all__:
        if name.startswith(pre + "To"):
            ops["convert-" + name] = ((lambda name=name: getattr(CV, name).convert(ms)), True)
    if game == "o2j":
        ops["convert-O2JToSM.merge"] = (lambda: CV.O2JToSM.convert_merge(ms), True)
    call, copies = ops[opname]
    run_op(ctx, dict(mapset=ms), call, copies)


def ob_hitsound_copy(state, ctx):
    from reamber.algorithms.osu.hitsound_copy import hitsound_copy

    C = classes("osu")
    src = _chart(ctx, "osu", "s")
    tgt = _chart(ctx, "osu", "g")
    if state.startswith("silent-source"):  # no note of the source carries any sound; the target has sounds and sample events of its own
        src.hits = C["HitList"]([C["Hit"](ctx.real("x0"), 0), C["Hit"](ctx.real("x1"), 1)])
        src.holds = src.holds[0:0]
        src.samples = src.samples[0:0]
        tgt.hits = C["HitList"]([C["Hit"](ctx.real("y0"), 0, hitsound_set=8, sample_set=1, hitsound_file="own.wav", volume=70), C["Hit"](ctx.real("y1"), 1, hitsound_set=2)])
    elif state.startswith("empty-source"):
        src.hits, src.holds, src.samples = src.hits[0:0], src.holds[0:0], src.samples[0:0]
        tgt.hits = C["HitList"]([C["Hit"](ctx.real("y0"), 0, hitsound_set=8, sample_set=1, hitsound_file="own.wav", volume=70)])
    else:
        src.hits = C["HitList"]([C["Hit"](ctx.real("x0"), 0, hitsound_set=2, volume=30), C["Hit"](ctx.real("x1"), 1, hitsound_file="a.wav", volume=30)])
        src.holds = src.holds[0:0]
        tgt.holds = tgt.holds[0:1]
    if state.endswith("reversed"):
        tgt.hits = tgt.hits[::-1]
        src.hits = src.hits[::-1]
    run_op(ctx, dict(source=src, target=tgt), lambda: hitsound_copy(src, tgt), True)


def obligations(tier, seed):
    quick = tier == "quick"
    obs = []
    for g in GAMES:
        for which in ("hits", "holds", "bpms"):
            names = LIST_OP_NAMES + (HOLD_OP_NAMES if which == "holds" else [])
            for opname in names:
                for state in ("default", "reversed"):
                    if quick and state == "reversed" and g not in ("osu", "sm"):
                        continue
                    if quick and g in ("qua", "o2j") and which != "holds":
                        continue
                    obs.append(Obligation("C14/list/%s/%s/%s/%s" % (g, which, opname, state), partial(ob_list, g, which, opname, state),
                                          bound="%s %s list (2 rows, symbolic values, rows %s), operation %s with symbolic arguments; receiver and argument snapshotted"
                                                % (g, which, state, opname), max_paths=3000, timeout_s=150))
        for opname in map_op_names(g):
            for state in ("default", "reversed", "tempo-unsorted"):
                if state == "tempo-unsorted" and not opname.startswith(("dominant", "scroll", "sv_normalize", "to_timing", "convert", "rate")):
                    continue
                if quick and state == "reversed" and opname.startswith("convert") and g != "osu":
                    continue
                obs.append(Obligation("C14/map/%s/%s/%s" % (g, opname, state), partial(ob_map, g, opname, state),
                                      bound="%s chart (2 hits, 2 holds, 2 tempo points, 1 SV, symbolic values, rows %s), operation %s" % (g, state, opname),
                                      max_paths=4000, timeout_s=240))
    for g in ("sm", "o2j"):
        names = ["rate", "deepcopy", "stack-read"] + {"sm": ["convert-SMToBMS", "convert-SMToOsu", "convert-SMToQua"],
                                                      "o2j": ["convert-O2JToBMS", "convert-O2JToOsu", "convert-O2JToQua", "convert-O2JToSM", "convert-O2JToSM.merge"]}[g]
        for opname in names:
            obs.append(Obligation("C14/mapset/%s/%s" % (g, opname), partial(ob_mapset, g, opname), bound="%s mapset of 2 charts, operation %s" % (g, opname), max_paths=4000, timeout_s=240))
    for state in ("default", "reversed", "silent-source", "silent-source-reversed", "empty-source"):
        obs.append(Obligation("C14/hitsound_copy/%s" % state, partial(ob_hitsound_copy, state), bound="hitsound_copy on two osu charts (rows %s), symbolic times" % state, max_paths=6000, timeout_s=300))
    # sequences of two operations on the same input
    seq_list = [("sorted", "append-item"), ("after", "move_start_to"), ("append-list-sort", "sorted-rev"), ("empty-append-list-sort", "deepcopy"), ("move_end_to", "between")]
    for g in (("osu",) if quick else GAMES):
        for a, b in seq_list:
            obs.append(Obligation("C14/list2/%s/holds/%s+%s" % (g, a, b), partial(ob_list, g, "holds", a, "reversed", second=b),
                                  bound="%s hold list, two operations in sequence on the same input" % g, max_paths=6000, timeout_s=300))
    seq_map = [("rate", "full_ln"), ("dominant_bpm", "rate"), ("full_ln", "deepcopy"), ("scroll_speed", "to_timing_map")]
    for g in (("osu", "bms") if quick else GAMES):
        for a, b in seq_map:
            obs.append(Obligation("C14/map2/%s/%s+%s" % (g, a, b), partial(ob_map, g, a, "tempo-unsorted", second=b),
                                  bound="%s chart, two operations in sequence on the same input" % g, max_paths=6000, timeout_s=300))
    from . import c14_writers

    obs.extend(c14_writers.obligations(tier, seed))
    return obs
