"""C10 - Timing engine: beat positions and millisecond offsets convert consistently.

Tempo variables are *beat lengths* L_i > 0 (bpm_i = 60000 / L_i), so that every quantity the code derives is a
polynomial in L_i and the initial offset; positions are concrete grid points enumerated by the harness, or a free
symbolic time where the snapping itself is the subject.
"""
from __future__ import annotations

import itertools
from fractions import Fraction as F
from functools import partial

from symx.run import Obligation
from symx.core import SymNum, isna
from .common import classes, col

SLACK = F(1, 10**9)  # the snap table holds doubles: "nearest" and "within 1/192 beat" carry this relative slack


def _tm():
    from reamber.algorithms.timing.TimingMap import TimingMap
    from reamber.algorithms.timing.utils.BpmChangeSnap import BpmChangeSnap
    from reamber.algorithms.timing.utils.BpmChangeOffset import BpmChangeOffset
    from reamber.algorithms.timing.utils.snap import Snap
    from reamber.algorithms.timing.utils.Snapper import Snapper

    return TimingMap, BpmChangeSnap, BpmChangeOffset, Snap, Snapper


def _bpm(L):
    return 60000 / L


def _beats_comparable(changes):
    return len({M for _m, _b, M in changes}) == 1 or all(F(b1) == 0 or M1 == M0 for (_m0, _b0, M0), (_m1, b1, M1) in zip(changes, changes[1:]))


def _abs_beats(changes):
    """absolute beat position of every change given (measure, beat, metronome) snaps: measures between two changes have
    the earlier change's metronome."""
    pos = [F(0)]
    for (m0, b0, M0), (m1, b1, _M1) in zip(changes, changes[1:]):
        pos.append(pos[-1] + (m1 - m0) * M0 + (F(b1) - F(b0)))
    return pos


def _ms_of(changes, Ls, off, q):
    """reference: piecewise-linear integration; q = (measure, beat) query."""
    starts = [off]
    for j in range(1, len(changes)):
        (m0, b0, M0), (m1, b1, _M) = changes[j - 1], changes[j]
        starts.append(starts[-1] + ((m1 - m0) * M0 + (F(b1) - F(b0))) * Ls[j - 1])
    j = max(i for i, (m, b, _M) in enumerate(changes) if (m, F(b)) <= (q[0], F(q[1])))
    m, b, M = changes[j]
    return starts[j] + ((q[0] - m) * M + (F(q[1]) - F(b))) * Ls[j]


def ob_offsets(changes, queries, ctx):
    TimingMap, BCS, BCO, Snap, Snapper = _tm()
    n = len(changes)
    Ls = ctx.reals("L", n)
    for L in Ls:
        ctx.assume(L > 0)
    off = ctx.real("off")
    bcs = [BCS(_bpm(Ls[i]), M, Snap(m, F(b), M)) for i, (m, b, M) in enumerate(changes)]
    tm = TimingMap.from_bpm_changes_snap(off, bcs, reseat=False)
    got = list(tm.offsets([Snap(m, F(b), None) for m, b in queries]))
    ctx.check("offsets.len", len(got) == len(queries))
    for i, q in enumerate(queries):
        ctx.check("offsets[%d].is-integration-in-query-order" % i, ctx.eq(got[i], _ms_of(changes, Ls, off, q)), note="query %s" % (q,))
        ctx.observe("offsets[%d]" % i, got[i])
    # the changes themselves sit where the integration puts them
    for j, (m, b, M) in enumerate(changes):
        ctx.check("change%d.ms" % j, ctx.eq(tm.bpm_changes_offset[j].offset, _ms_of(changes, Ls, off, (m, b))))


def ob_roundtrip_grid(changes, queries, ctx):
    """ms -> snaps -> ms for on-grid times, symbolic tempo: exact; snaps come back in query order."""
    TimingMap, BCS, BCO, Snap, Snapper = _tm()
    n = len(changes)
    Ls = ctx.reals("L", n)
    for L in Ls:
        ctx.assume(L > 0)
    off = ctx.real("off")
    bcs = [BCS(_bpm(Ls[i]), M, Snap(m, F(b), M)) for i, (m, b, M) in enumerate(changes)]
    tm = TimingMap.from_bpm_changes_snap(off, bcs, reseat=False)
    times = [_ms_of(changes, Ls, off, q) for q in queries]
    snaps = list(tm.snaps(times, Snapper()))
    ctx.check("snaps.len", len(snaps) == len(queries))
    pos = _abs_beats(changes)
    for i, (q, s) in enumerate(zip(queries, snaps)):
        # same absolute position (measure numbering may differ where a measure is cut short by a change)
        back = tm.offsets([s])[0]
        ctx.check("roundtrip[%d].same-time" % i, ctx.eq(back, times[i]), note="query %s -> snap %r" % (q, s))
        ctx.observe("roundtrip[%d]" % i, back)
    beats = list(tm.beats(times, Snapper()))
    expect = []
    for q in queries:
        j = max(i for i, (m, b, _M) in enumerate(changes) if (m, F(b)) <= (q[0], F(q[1])))
        m, b, M = changes[j]
        expect.append(pos[j] + (q[0] - m) * M + (F(q[1]) - F(b)))
    # with mixed metronomes the cumulative count is compared when every change of metronome lies on a measure line
    # (a measure cut short by a change has no agreed beat numbering; such sets keep the round-trip facets only)
    if _beats_comparable(changes):
        # a metronome change strictly between two time-adjacent queries (no query on the change itself): known finding
        # C10-beats-unqueried-metronome-change; such pairs carry their own facet name
        key = lambda q: (q[0], F(q[1]))
        sq = sorted({key(q) for q in queries})
        bad_gaps = [(a, b) for a, b in zip(sq, sq[1:])
                    if any(a < (m1, F(b1)) < b and M1 != M0 for (_m0, _b0, M0), (m1, b1, M1) in zip(changes, changes[1:]))]
        for i, j in itertools.combinations(range(len(queries)), 2):
            lo, hi = sorted((key(queries[i]), key(queries[j])))
            sparse = any(lo <= a and b <= hi for a, b in bad_gaps)
            ctx.check("beats[%d]-beats[%d].is-beat-distance%s" % (j, i, "{across-unqueried-metronome-change}" if sparse else ""),
                      ctx.eq(beats[j] - beats[i], expect[j] - expect[i]),
                      note="%r - %r vs %r" % (ctx.value(beats[j]), ctx.value(beats[i]), expect[j] - expect[i]))


def ob_from_offsets(perm, metros, gaps, ctx, via_list=None):
    """Tempo changes given as (bpm, metronome, ms) in any order -> same timing as the sorted list."""
    TimingMap, BCS, BCO, Snap, Snapper = _tm()
    n = len(metros)
    Ls = ctx.reals("L", n)
    for L in Ls:
        ctx.assume(L > 0)
    off = ctx.real("off")
    ts = [off]
    for j in range(1, n):
        ts.append(ts[-1] + gaps[j - 1] * Ls[j - 1])  # gaps in beats (whole measures of the previous change)
    order = list(perm)
    if via_list is None:
        tm = TimingMap.from_bpm_changes_offset([BCO(_bpm(Ls[i]), metros[i], ts[i]) for i in order])
    else:
        C = classes(via_list[0])
        bl = C["BpmList"]([C["Bpm"](ts[i], _bpm(Ls[i]), metronome=metros[i]) for i in order])
        if via_list[1] == "sorted":
            bl = bl.sorted()
        elif via_list[1] == "append-sorted":
            bl = C["BpmList"]([C["Bpm"](ts[i], _bpm(Ls[i]), metronome=metros[i]) for i in order[:-1]]).append(
                C["Bpm"](ts[order[-1]], _bpm(Ls[order[-1]]), metronome=metros[order[-1]]), sort=True)
        elif via_list[1] == "reversed":
            bl = bl[::-1]
        before = [list(col(bl.df, c)) for c in bl.df.columns]
        tm = bl.to_timing_map()
        after = [list(col(bl.df, c)) for c in bl.df.columns]
        ctx.check("bpm-list.untouched", all(a is b or (not isinstance(a, SymNum) and a == b) for x, y in zip(before, after) for a, b in zip(x, y)))
    bco = tm.bpm_changes_offset
    ctx.check("changes.in-time-order", ctx.all(*[ctx.le(a.offset, b.offset) for a, b in zip(bco, bco[1:])]))
    # the change active at the time of every given change carries that change's bpm and metronome (a point that repeats both
    # may be dropped by an implementation; the order of the given list is irrelevant)
    for j in range(n):
        act = None
        for c in bco:
            if ctx.le(c.offset, ts[j]):
                act = c
        ctx.check("change%d.active-at-its-time-with-its-own-bpm-and-metronome" % j,
                  False if act is None else ctx.all(ctx.eq(act.bpm * Ls[j], 60000), act.metronome == metros[j]))
    # position <-> ms on top of it
    changes = []
    meas = 0
    for j in range(n):
        changes.append((meas, 0, metros[j]))
        if j + 1 < n:
            meas += int(F(gaps[j]) / metros[j])
    queries = [(changes[-1][0] + 1, F(1, 2)), (0, 1 if metros[0] > 1 else 0), (changes[-1][0], 0), (0, 1 if metros[0] > 1 else 0)]
    got = list(tm.offsets([Snap(m, F(b), None) for m, b in queries]))
    for i, q in enumerate(queries):
        ctx.check("offsets[%d].is-integration" % i, ctx.eq(got[i], _ms_of(changes, Ls, off, q)), note="query %s" % (q,))
    times = [_ms_of(changes, Ls, off, q) for q in queries]
    snaps = list(tm.snaps(times, Snapper()))
    for i, s in enumerate(snaps):
        ctx.check("snaps[%d].back-to-same-time" % i, ctx.eq(tm.offsets([s])[0], times[i]))


def _allowed(max_den):
    return sorted({F(a, d) for d in range(1, max_den + 1) for a in range(0, d)} | {F(1)})


def ob_snapper(divisions, lo, hi, ctx):
    """Snapper.snap(x) for symbolic x in [lo, hi): nearest allowed fraction, idempotent."""
    TimingMap, BCS, BCO, Snap, Snapper = _tm()
    sn = Snapper(divisions=divisions) if divisions is not None else Snapper()
    from reamber.algorithms.timing.utils.conf import DEFAULT_DIVISIONS

    table = _allowed(max(divisions if divisions is not None else DEFAULT_DIVISIONS))
    x = ctx.real("x")
    ctx.assume(x >= lo)
    ctx.assume(x < hi)
    r = sn.snap(x)
    fl = x.floor() if isinstance(x, SymNum) else F(x).__floor__()
    frac = r - fl
    ctx.check("snap.is-allowed-fraction", ctx.any(*[ctx.eq(frac, g) for g in table]), note="%r" % ctx.value(frac))
    d = r - x
    eps = SLACK
    if not isinstance(frac, SymNum) and F(frac) in table:
        # the allowed fractions are sorted points on a line: "no allowed fraction is nearer than r" holds exactly when x lies in
        # the Voronoi cell of r, i.e. between the midpoints to r's two neighbours in the table (per path r - floor(x) is concrete)
        i = table.index(F(frac))
        lo_cell = fl + (table[i - 1] + table[i]) / 2 if i > 0 else fl + table[0] - F(1, 2)
        hi_cell = fl + (table[i] + table[i + 1]) / 2 if i + 1 < len(table) else fl + table[-1] + F(1, 2)
        ctx.check("snap.no-allowed-fraction-is-nearer", ctx.all(ctx.ge(x, lo_cell - eps), ctx.le(x, hi_cell + eps)), note="snapped to %s" % frac)
    else:
        near = []
        for g in table:
            cand = fl + g
            # |x - r| <= |x - cand| + eps   (four sign cases folded into two linear constraints each)
            near.append(ctx.all(ctx.any(ctx.le(d, (cand - x) + eps), ctx.le(d, (x - cand) + eps)), ctx.any(ctx.le(-d, (cand - x) + eps), ctx.le(-d, (x - cand) + eps))))
        ctx.check("snap.no-allowed-fraction-is-nearer", ctx.all(*near))
    ctx.check("snap.idempotent", ctx.eq(sn.snap(r), r))
    ctx.check("snap.within-half-grid", ctx.all(ctx.le(d, F(1, 2)), ctx.le(-d, F(1, 2))))
    ctx.observe("snap", r)


def ob_roundtrip_free(L0, L1, lo, hi, ctx):
    """ms -> snap -> ms for a free symbolic time at or after the first change (concrete tempo): within 1/192 beat."""
    TimingMap, BCS, BCO, Snap, Snapper = _tm()
    off = F(-37)
    changes = [(0, 0, 4)] + ([(2, 0, 4)] if L1 is not None else [])
    Ls = [F(L0)] + ([F(L1)] if L1 is not None else [])
    bcs = [BCS(60000 / Ls[i], M, Snap(m, F(b), M)) for i, (m, b, M) in enumerate(changes)]
    tm = TimingMap.from_bpm_changes_snap(off, bcs, reseat=False)
    x = ctx.real("beats")  # the query time, measured in beats of the segment it lies in
    ctx.assume(x >= lo)
    ctx.assume(x < hi)
    if L1 is None:
        o, Lq = off + x * Ls[0], Ls[0]
    else:
        o, Lq = off + 8 * Ls[0] + x * Ls[1], Ls[1]
    s = tm.snaps([o], Snapper())[0]
    back = tm.offsets([s])[0]
    tol = Lq * (F(1, 192) + SLACK)
    ctx.check("roundtrip.within-1/192-beat", ctx.all(ctx.le(back - o, tol), ctx.le(o - back, tol)), note="snap %r" % (s,))
    ctx.observe("back", back)


def ob_custom_snapper(divs, lo, hi, ctx, via="snaps"):
    """TimingMap.snaps / beats with a caller-supplied Snapper: the position comes from *that* snapper's table"""
    TimingMap, BCS, BCO, Snap, Snapper = _tm()
    Lc, off = F(500), F(-12)
    tm = TimingMap.from_bpm_changes_snap(off, [BCS(60000 / Lc, 4, Snap(0, 0, 4))], reseat=False)
    x = ctx.real("beats")
    ctx.assume(x >= lo)
    ctx.assume(x < hi)
    sn = Snapper(divisions=divs)
    table = _allowed(max(divs))
    if via == "snaps":
        s = tm.snaps([off + x * Lc], sn)[0]
        pos = s.measure * 4 + s.beat
    else:
        pos = tm.beats([off + x * Lc], sn)[0]
    fl = x.floor() if isinstance(x, SymNum) else F(x).__floor__()
    frac = pos - fl
    ctx.check("custom-snapper.position-is-on-its-table", ctx.any(*[ctx.eq(frac, g) for g in table]), note="%r" % ctx.value(frac))
    if not isinstance(frac, SymNum) and F(frac) in table:
        i = table.index(F(frac))
        lo_cell = fl + (table[i - 1] + table[i]) / 2 if i > 0 else fl + table[0] - F(1, 2)
        hi_cell = fl + (table[i] + table[i + 1]) / 2 if i + 1 < len(table) else fl + table[-1] + F(1, 2)
        ctx.check("custom-snapper.nearest-on-its-table", ctx.all(ctx.ge(x, lo_cell - SLACK), ctx.le(x, hi_cell + SLACK)))
    ctx.observe("pos", pos)


def ob_edit_records(what, ctx):
    """the tempo records of a TimingMap are its ground truth: after editing one in place, conversions follow the edit"""
    TimingMap, BCS, BCO, Snap, Snapper = _tm()
    L = ctx.reals("L", 2)
    for x in L:
        ctx.assume(x > 0)
    off = ctx.real("off")
    changes = [(0, 0, 4), (2, 0, 4)]
    tm = TimingMap.from_bpm_changes_snap(off, [BCS(_bpm(L[i]), M, Snap(m, F(b), M)) for i, (m, b, M) in enumerate(changes)], reseat=False)
    qs = [(3, F(1, 2)), (1, 1), (2, 0), (5, F(3))]
    first = list(tm.offsets([Snap(m, F(b), None) for m, b in qs]))
    for i, q in enumerate(qs):
        ctx.check("before-edit.offsets[%d]" % i, ctx.eq(first[i], _ms_of(changes, L, off, q)))
    pre = list(tm.snaps([_ms_of(changes, L, off, q) for q in qs], Snapper()))  # both directions are used before the edit
    for i, s in enumerate(pre):
        ctx.check("before-edit.snaps[%d].back-to-same-time" % i, ctx.eq(tm.offsets([s])[0], first[i]))
    if what == "bpm":
        Ln = ctx.real("Lnew")
        ctx.assume(Ln > 0)
        tm.bpm_changes_offset[1].bpm = _bpm(Ln)
        L2, ch2 = [L[0], Ln], changes
    else:
        tm.bpm_changes_offset[1].metronome = 3
        L2, ch2 = L, [(0, 0, 4), (2, 0, 3)]
    second = list(tm.offsets([Snap(m, F(b), None) for m, b in qs]))
    for i, q in enumerate(qs):
        ctx.check("after-edit.offsets[%d].follow-the-edited-record" % i, ctx.eq(second[i], _ms_of(ch2, L2, off, q)), note="query %s" % (q,))
        ctx.observe("after[%d]" % i, second[i])
    times = [_ms_of(ch2, L2, off, q) for q in qs]
    back = list(tm.snaps(times, Snapper()))
    for i, s in enumerate(back):
        ctx.check("after-edit.snaps[%d].back-to-same-time" % i, ctx.eq(tm.offsets([s])[0], times[i]))


def ob_snap_arith(M, ctx):
    """Snap(measure, beat, M): carry normalisation keeps measure*M + beat, 0 <= beat < M; __sub__ and offset agree."""
    TimingMap, BCS, BCO, Snap, Snapper = _tm()
    m = ctx.int("m", 0, 3)  # no caller produces a negative measure (queries lie at or after the first change)
    b = ctx.real("b")
    ctx.assume(b >= -3 * M)
    ctx.assume(b <= 3 * M)
    total = m * M + b
    try:
        s = Snap(m, b, M)
    except ValueError:
        ctx.check("snap.rejects-only-negative-positions", ctx.lt(total, 0))
        return
    ctx.check("snap.keeps-position", ctx.eq(s.measure * M + s.beat, total))
    ctx.check("snap.beat-in-range", ctx.all(ctx.ge(s.beat, 0), ctx.lt(s.beat, M)))
    ctx.check("snap.measure-nonneg-integer", ctx.ge(s.measure, 0))
    L = ctx.real("L")
    ctx.assume(L > 0)
    bc = BCO(60000 / L, M, 0)
    ctx.check("snap.offset", ctx.eq(s.offset(bc), total * L))
    m2 = ctx.int("m2", 0, 2)
    b2 = ctx.real("b2")
    ctx.assume(b2 >= 0)
    ctx.assume(b2 < M)
    s2 = Snap(m2, b2, M)
    if bool(total >= m2 * M + b2):  # (exact: this decides what is computed, it is not a check)
        dd = s - s2
        ctx.check("sub.keeps-distance", ctx.eq(dd.measure * M + dd.beat, total - (m2 * M + b2)))
        ctx.check("order", bool(s2 < s) or bool(s2 == s))
    ctx.observe("measure", s.measure)


# ---------------------------------------------------------------------------------------------
def _queries_for(changes):
    last = changes[-1]
    qs = [(last[0] + 1, F(3, 4)), (0, 0), (last[0], F(last[1])), (0, F(1, 3)) if changes[0][2] > 1 or True else (0, 0), (last[0] + 2, 0)]
    if len(changes) > 1:
        m, b, M = changes[1]
        qs.append((m, F(b)))
    return qs


CHANGE_SETS = [
    [(0, 0, 4)],
    [(0, 0, 4), (1, 0, 4)],
    [(0, 0, 4), (1, 2, 4)],
    [(0, 0, 3), (2, 0, 5)],
    [(0, 0, 4), (0, F(3, 2), 4), (2, 1, 4)],
    [(0, 0, 7), (1, 0, 2), (3, 0, 8)],
    [(0, 0, 1), (5, 0, 6), (6, F(1, 3), 6)],
    [(0, 0, 4), (2, 0, 4), (2, F(1, 48), 4)],
    [(0, 0, 5), (1, 0, 4), (1, F(5, 2), 4), (3, 0, 3)],
]
# two changes on one position: the later listed one is in force from there on
TIE_SETS = [
    [(0, 0, 4), (2, 0, 4), (2, 0, 4)],
    [(0, 0, 4), (0, 0, 4), (1, 2, 4)],
    [(0, 0, 4), (1, F(3, 2), 4), (1, F(3, 2), 4), (3, 0, 4)],
]


def obligations(tier, seed):
    quick = tier == "quick"
    obs = []
    sets = (CHANGE_SETS[:7] + TIE_SETS[:2]) if quick else (CHANGE_SETS + TIE_SETS)
    for ci, ch in enumerate(sets):
        base = _queries_for(ch)
        orders = [base, base[::-1], [base[2], base[0], base[2], base[1], base[0]]]
        if not quick:
            orders += [list(p) for p in list(itertools.permutations(base[:4]))[3:12]]
        for oi, qs in enumerate(orders):
            obs.append(Obligation("C10/offsets/set%d/order%d" % (ci, oi), partial(ob_offsets, ch, qs),
                                  bound="%d tempo changes at %s (measure, beat, metronome), symbolic beat lengths and initial offset; queries %s" % (len(ch), ch, qs)))
        same = _beats_comparable(ch)
        grid_qs = [q for q in base] + [(ch[-1][0] + 1, F(1, 2)), (0, F(1, 4))]
        for oi, qs in enumerate([grid_qs, grid_qs[::-1], [grid_qs[1], grid_qs[1], grid_qs[0]]]):
            obs.append(Obligation("C10/roundtrip-grid/set%d/order%d" % (ci, oi), partial(ob_roundtrip_grid, ch, qs),
                                  bound="ms->snaps->ms and cumulative beats for on-grid times; changes %s; queries %s; symbolic beat lengths/offset%s" % (ch, qs, "" if same else " (beats facet skipped: metronome changes inside a measure)")))
    # tempo lists given out of order / through BpmList with any row labels
    specs = [((4, 4), (8,)), ((4, 3, 5), (4, 6)), ((2, 4, 4), (4, 8))]
    for metros, gaps in specs:
        n = len(metros)
        for perm in itertools.permutations(range(n)):
            pn = "".join(map(str, perm))
            obs.append(Obligation("C10/from-offsets/%s/rows=%s" % ("-".join(map(str, metros)), pn), partial(ob_from_offsets, perm, metros, gaps),
                                  bound="TimingMap.from_bpm_changes_offset with %d changes (metronomes %s) listed in order %s; symbolic beat lengths/offset" % (n, metros, pn)))
            for via in (("osu", "plain"), ("sm", "sorted"), ("bms", "append-sorted"), ("qua", "reversed")):
                if quick and n == 3 and via[1] in ("plain",) and perm != (2, 0, 1):
                    continue
                obs.append(Obligation("C10/to-timing-map/%s-%s/%s/rows=%s" % (via[0], via[1], "-".join(map(str, metros)), pn),
                                      partial(ob_from_offsets, perm, metros, gaps, via_list=via),
                                      bound="BpmList.to_timing_map, list built %s in row order %s" % (via[1], pn)))
    # snapping
    tables = [((1, 2, 4), 4), ((1, 2, 3, 4, 6, 8), 8), ((8, 3, 4), 8), ((1, 2, 4, 8, 16, 3, 6, 12), 16)] if quick else \
        [((1, 2, 4), 4), ((1, 2, 3, 4, 6, 8), 8), ((8, 3, 4), 8), ((1, 2, 4, 8, 16, 3, 6, 12), 16), ((32, 1, 24), 32)]
    for div, mx in tables:
        pieces = 1 if mx <= 8 else (4 if mx <= 16 else 16)
        for pi in range(pieces):
            lo, hi = F(pi, pieces), F(pi + 1, pieces)
            obs.append(Obligation("C10/snapper/div=%s/x[%s,%s)" % ("-".join(map(str, div)), lo, hi), partial(ob_snapper, div, lo, hi),
                                  bound="Snapper(divisions=%s).snap(x), x symbolic in [%s,%s)" % (div, lo, hi), max_paths=20000, timeout_s=300))
        obs.append(Obligation("C10/snapper/div=%s/x[-2,-1)+[3,4)" % "-".join(map(str, div)), partial(ob_snapper, div, F(7, 2), F(4)),
                              bound="Snapper(divisions=%s).snap(x), x symbolic in [3.5,4)" % (div,), max_paths=20000, timeout_s=300))
    # default table (2807 entries): the whole beat, split into sub-ranges over the cores
    n_default = 16 if quick else 64
    for pi in range(n_default):
        lo, hi = F(pi, n_default), F(pi + 1, n_default)
        obs.append(Obligation("C10/snapper/default/x[%s,%s)" % (lo, hi), partial(ob_snapper, None, lo, hi),
                              bound="Snapper().snap(x) (default divisions, all denominators <= 96), x symbolic in [%s,%s)" % (lo, hi), max_paths=30000, timeout_s=900))
        if quick and pi % 4:
            continue
        obs.append(Obligation("C10/roundtrip-free/one-tempo/beat[%s,%s)" % (lo + 5, hi + 5), partial(ob_roundtrip_free, F(375), None, lo + 5, hi + 5),
                              bound="ms->snap->ms of a free symbolic time, 160 bpm, time in beats [%s,%s) after the change" % (lo + 5, hi + 5), max_paths=30000, timeout_s=900))
        obs.append(Obligation("C10/roundtrip-free/two-tempos/beat[%s,%s)" % (lo + 2, hi + 2), partial(ob_roundtrip_free, F(500), F(1000, 3), lo + 2, hi + 2),
                              bound="ms->snap->ms of a free symbolic time in the second of two tempo segments (120 -> 180 bpm), beats [%s,%s)" % (lo + 2, hi + 2), max_paths=30000, timeout_s=900))
    for divs in ((1, 2, 4), (1, 2, 3, 4, 6, 8)):
        for via in ("snaps", "beats"):
            obs.append(Obligation("C10/custom-snapper/div=%s/%s" % ("-".join(map(str, divs)), via), partial(ob_custom_snapper, divs, F(5), F(6), via=via),
                                  bound="TimingMap.%s of a free symbolic time with Snapper(divisions=%s): one whole beat" % (via, divs), max_paths=5000, timeout_s=300))
    for what in ("bpm", "metronome"):
        obs.append(Obligation("C10/edit-record/%s" % what, partial(ob_edit_records, what), bound="two tempo records, the second one's %s edited in place between conversions; symbolic beat lengths" % what))
    for M in ((4, 3) if quick else (1, 2, 3, 4, 5, 7, 8)):
        obs.append(Obligation("C10/snap-arith/metronome%d" % M, partial(ob_snap_arith, M),
                              bound="Snap(measure, beat, %d) with symbolic integer measure in [0,3] and symbolic real beat; subtraction; offset" % M, max_paths=5000, timeout_s=300))
    return obs
