"""C02 - StepMania reading places every object at the time its beat and tempos imply."""
from __future__ import annotations

import itertools
from fractions import Fraction as F
from functools import partial

from symx.run import Obligation
from symx.core import SymNum, isna
from oracles import sm as ref
from .common import col, cell_same, same_multiset

LISTS = dict(hit="hits", hold="holds", roll="rolls", mine="mines", lift="lifts", fake="fakes", keysound="keysounds")
TYPES = {3: "dance-threepanel", 4: "dance-single", 6: "dance-solo", 7: "kb7-single", 8: "dance-double"}

HEADER = """#TITLE:%(title)s;
#SUBTITLE:sub;
#ARTIST:art;
#TITLETRANSLIT:tt;
#SUBTITLETRANSLIT:;
#ARTISTTRANSLIT:at;
#GENRE:g;
#CREDIT:cr;
#BANNER:bn.png;
#BACKGROUND:bg.png;
#LYRICSPATH:;
#CDTITLE:;
#MUSIC:song.ogg;
#OFFSET:%(offset)s;
#SAMPLESTART:%(sstart)s;
#SAMPLELENGTH:%(slen)s;
#SELECTABLE:%(selectable)s;
#DISPLAYBPM:150;
#BPMS:%(bpms)s;
%(stops)s#BGCHANGES:;
"""


def measure_rows(keys, nrows, placed):
    """placed: {(row, col): symbol}"""
    rows = []
    for r in range(nrows):
        rows.append("".join(placed.get((r, c), "0") for c in range(keys)))
    return rows


def chart_text(ctype, desc, diff, meter, measures, comments=False, stray=False):
    body = []
    for mi, rows in enumerate(measures):
        lines = list(rows)
        if comments and mi == 0:
            # comment line, blank line, a line of blanks, comments after a row and after the measure separator's line
            lines = ["  // measure %d: first; of many" % mi] + [lines[0] + "  // row 0", lines[1] + "// row 1"] + ["", "  "] + lines[2:-1] + [lines[-1] + " // last"]
        body.append("\n".join(lines))
    # stray=True: the separator line carries no comment marker; text between ';' and the next '#' is skipped by the MSD rules
    return ("" if stray else "//") + "--------- %s - %s ----------\n#NOTES:\n     %s:\n     %s:\n     %s:\n     %s:\n     0.1,0.2,0.3,0.4,0.5:\n%s\n;\n" % (
        ctype, desc.replace(":", " "), ctype, desc, diff, meter, "\n,\n".join(body))


# chart patterns: list of measures, each (nrows, {(row, col): symbol})
def patterns(keys):
    k = keys
    P = {}
    P["taps"] = [(4, {(0, 0): "1", (2, k - 1): "1"}), (8, {(3, 1 % k): "1", (7, 0): "1"})]
    P["hold-in-measure"] = [(4, {(0, 0): "2", (3, 0): "3", (1, k - 1): "1"})]
    P["hold-across-measures"] = [(4, {(2, 1 % k): "2"}), (12, {(5, 1 % k): "3", (0, 0): "1"})]
    P["roll+hold"] = [(8, {(0, 0): "4", (1, k - 1): "2", (6, 0): "3", (7, k - 1): "3"})]
    P["mixed-symbols"] = [(4, {(0, 0): "M", (1, 1 % k): "L", (2, 2 % k): "F", (3, k - 1): "K"}), (16, {(5, 0): "1", (11, k - 1): "M"})]
    P["empty-first-measure"] = [(4, {}), (4, {(1, 0): "1"}), (4, {}), (4, {(3, k - 1): "1"})]
    P["48-rows"] = [(48, {(1, 0): "1", (47, k - 1): "1", (24, 1 % k): "2", (25, 1 % k): "3"})]
    P["20+28-rows"] = [(20, {(3, 0): "1", (7, k - 1): "2", (19, k - 1): "3"}), (28, {(5, 1 % k): "1", (27, 0): "M"})]
    P["two-holds-one-column"] = [(8, {(0, 0): "2", (2, 0): "3", (4, 0): "4", (7, 0): "3", (3, k - 1): "1"})]
    return P


BPM_SETS = {
    "one": ["0.000"],
    "measure-line": ["0.000", "4.000"],
    "mid-measure": ["0.000", "2.500"],
    "mid+line": ["0.000", "2.500", "8.000"],
    "third": ["0.000", "1.333", "6.000"],
    "48th": ["0.000", "4.021"],
    "unsorted": ["0.000", "6.000", "2.000"],
    "tie": ["0.000", "4.000", "4.000", "6.500"],
}


def build(ctx, charts, bpm_set, stops_tag="#STOPS:;\n", selectable="YES", comments=False, title="Song", header_comment=False, stray=False):
    tk = ctx.tok
    off = ctx.real("offset")
    Ls = []
    bp = []
    for i, b in enumerate(BPM_SETS[bpm_set] if isinstance(bpm_set, str) else bpm_set):
        L = ctx.real("L%d" % i)
        ctx.assume(L > 0)
        Ls.append(L)
        bp.append("%s=%s" % (b, tk(60000 / L)))
    ss, sl = ctx.real("sstart"), ctx.real("slen")
    text = HEADER % dict(title=title, offset=tk(off), sstart=tk(ss), slen=tk(sl), selectable=selectable, bpms="\n,".join(bp), stops=stops_tag)
    for ci, (keys, pname, desc, diff, meter) in enumerate(charts):
        ctype = TYPES[keys] if isinstance(keys, int) else keys[1]  # (columns, chart type) for types the key count does not name
        keys = keys if isinstance(keys, int) else keys[0]
        ms = [measure_rows(keys, n, placed) for n, placed in (patterns(keys)[pname] if isinstance(pname, str) else pname)]
        text += chart_text(ctype, desc, diff, meter, ms, comments=comments, stray=stray)
    if header_comment:
        # comment lines in the header, one of them containing '#'
        text = text.replace("#OFFSET:", "// synced against take #2 of the master\n#OFFSET:").replace("#BPMS:", "// tempo #1: see notes\n#BPMS:")
    return text, dict(off=off, Ls=Ls, sstart=ss, slen=sl)


def lib_objects(m):
    out = {}
    for kind, name in LISTS.items():
        df = m.objs[name].df
        if kind in ("hold", "roll"):
            out[kind] = list(zip(col(df, "column"), col(df, "offset"), col(df, "length")))
        else:
            out[kind] = list(zip(col(df, "column"), col(df, "offset")))
    return out


def ref_objects(ctx, d, chart):
    out = {k: [] for k in LISTS}
    for o in chart["objects"]:
        t = ref.ms_of(ctx, d, o["beat"])
        if "end" in o:
            out[o["kind"]].append((o["col"], t, ref.ms_of(ctx, d, o["end"]) - t))
        else:
            out[o["kind"]].append((o["col"], t))
    return out


EXACT_SETS = ("one", "measure-line", "mid-measure", "mid+line", "unsorted", "tie")  # beats that a 3-decimal numeral renders exactly


def _eq_tol(ctx, tol):
    def eq(a, b):
        if len(a) != len(b) or a[0] != b[0]:
            return False
        conds = [ctx.within(a[1], b[1], tol, strict=False)]
        if len(a) > 2:
            conds.append(ctx.within(a[1] + a[2], b[1] + b[2], tol, strict=False))
        return ctx.all(*conds)

    return eq


def check_charts(ctx, label, sms, d, tol=None):
    ctx.check(label + ".chart-count", len(sms.maps) == len(d["charts"]), note="%d vs %d" % (len(sms.maps), len(d["charts"])))
    for i, (m, ch) in enumerate(zip(sms.maps, d["charts"])):
        lab = "%s.chart%d" % (label, i)
        ctx.check(lab + ".header", (m.chart_type, m.description, m.difficulty, str(m.difficulty_val)) == (ch["type"], ch["description"], ch["difficulty"], str(ch["meter"])),
                  note="%r vs %r" % ((m.chart_type, m.description, m.difficulty, m.difficulty_val), (ch["type"], ch["description"], ch["difficulty"], ch["meter"])))
        ctx.check(lab + ".radar", [float(x) for x in m.groove_radar] == [float(x) for x in ch["radar"]])
        A, B = lib_objects(m), ref_objects(ctx, d, ch)
        for kind in LISTS:
            ctx.check("%s.%s.count" % (lab, kind), len(A[kind]) == len(B[kind]), note="%d vs %d" % (len(A[kind]), len(B[kind])))
            ctx.check("%s.%s.at-integrated-times" % (lab, kind), same_multiset(ctx, A[kind], B[kind], eq=None if tol is None else _eq_tol(ctx, tol)),
                      note="%r vs %r" % (A[kind][:2], B[kind][:2]))
            for j, row in enumerate(A[kind]):
                ctx.observe("%s.%s%d.t" % (lab, kind, j), row[1])
        # every tempo change of the file is a tempo point of the chart at its millisecond position
        bt = col(m.bpms.df, "offset")
        for j, (beat, bpm) in enumerate(d["bpms"]):
            t = ref.ms_of(ctx, d, beat)
            ctx.check("%s.tempo-change%d.present" % (lab, j), ctx.any(*[(ctx.eq(x, t) if tol is None else ctx.within(x, t, tol, strict=False)) for x in bt]), note="beat %s" % beat)
        first = ref.ms_of(ctx, d, sorted(b for b, _x in d["bpms"])[0])
        ctx.check(lab + ".first-tempo-point-at--offset", ctx.any(*[ctx.eq(x, first) for x in bt]))


def check_header(ctx, label, sms, d, vars_):
    h = d["header"]
    pairs = dict(title="#TITLE", subtitle="#SUBTITLE", artist="#ARTIST", title_translit="#TITLETRANSLIT", artist_translit="#ARTISTTRANSLIT", genre="#GENRE",
                 credit="#CREDIT", banner="#BANNER", background="#BACKGROUND", music="#MUSIC", display_bpm="#DISPLAYBPM")
    for attr, tag in pairs.items():
        if tag in h:
            ctx.check("%s.header[%s]" % (label, tag), getattr(sms, attr) == h[tag], note="%r vs %r" % (getattr(sms, attr), h[tag]))
    # (these pass through the double constants 1000.0 and 1/1000.0: compared up to 1e-9 relative, DESIGN appendix A)
    ctx.check(label + ".header[#OFFSET]", ctx.close(sms.offset, d["offset_ms"]))
    if "#SAMPLESTART" in h:
        ctx.check(label + ".header[#SAMPLESTART]", ctx.close(sms.sample_start, 1000 * h["#SAMPLESTART"]))
        ctx.check(label + ".header[#SAMPLELENGTH]", ctx.close(sms.sample_length, 1000 * h["#SAMPLELENGTH"]))
    if "#SELECTABLE" in h:
        ctx.check(label + ".header[#SELECTABLE]", sms.selectable == (h["#SELECTABLE"] == "YES"))


def ob_read(charts, bpm_set, ctx, stops_tag="#STOPS:;\n", selectable="YES", comments=False, as_lines=False, header_comment=False, stray=False):
    from reamber.sm import SMMapSet

    text, vars_ = build(ctx, charts, bpm_set, stops_tag=stops_tag, selectable=selectable, comments=comments, header_comment=header_comment, stray=stray)
    sms = SMMapSet.read(text.split("\n") if as_lines else text)
    d = ref.parse(ctx, text)
    ctx.check("reference.well-formed-input", all(not c["ill_formed"] for c in d["charts"]), note="%s" % [c["ill_formed"] for c in d["charts"]])
    # a #BPMS beat such as 1.333 or 4.021 is a 3-decimal rendering of a grid position: the two readings (literal / grid) differ
    # by at most 0.0005 beat per change, so times are then compared within 0.001 beat of the summed beat lengths
    exact = bpm_set in EXACT_SETS if isinstance(bpm_set, str) else all(float(b) * 8 == int(float(b) * 8) for b in bpm_set)
    tol = None if exact else sum(vars_["Ls"]) / 1000
    check_charts(ctx, "read", sms, d, tol)
    check_header(ctx, "read", sms, d, vars_)


def random_chart(rng):
    """a generated chart: 1-4 measures of 4..192 rows, taps / mines / lifts / fakes / keysounds and holds / rolls closed later in their column"""
    keys = rng.choice((3, 4, 4, 6, 7, 8))
    nm = rng.randint(1, 4)
    rows = [rng.choice((4, 8, 12, 16, 20, 24, 28, 32, 48, 64, 96, 192)) for _ in range(nm)]
    placed = [dict() for _ in range(nm)]
    cells = [(m, r) for m in range(nm) for r in range(rows[m])]
    for c in rng.sample(range(keys), rng.randint(1, min(keys, 4))):
        pos = sorted(rng.sample(cells, min(len(cells), rng.randint(1, 4))), key=lambda mr: (mr[0], F(mr[1], rows[mr[0]])))
        i = 0
        while i < len(pos):
            m, r = pos[i]
            if i + 1 < len(pos) and rng.random() < 0.4:
                placed[m][(r, c)] = rng.choice("24")
                m2, r2 = pos[i + 1]
                placed[m2][(r2, c)] = "3"
                i += 2
            else:
                placed[m][(r, c)] = rng.choice("11MLFK")
                i += 1
    return keys, [(rows[m], placed[m]) for m in range(nm)]


def random_bpms(rng):
    """#BPMS beats on the 1/8-beat grid (3-decimal numerals that are exact), listed in random order after beat 0"""
    later = rng.sample([F(k, 8) for k in range(1, 16 * 8)], rng.randint(0, 3))
    if later and rng.random() < 0.25:  # two entries on one beat: the later listed one is in force
        later.append(rng.choice(later))
    rng.shuffle(later)
    return ["0.000"] + ["%.3f" % float(b) for b in later]


def obligations(tier, seed):
    import random

    quick = tier == "quick"
    obs = []
    rng = random.Random(2000 + seed)
    for k in range(6 if quick else 300):
        charts = []
        for ci in range(rng.choice((1, 1, 2))):
            keys, ms = random_chart(rng)
            charts.append((keys, ms, "g%d" % ci, rng.choice(("Beginner", "Easy", "Medium", "Hard", "Challenge", "Edit")), rng.randint(1, 20)))
        bp = random_bpms(rng)
        obs.append(Obligation("C02/read/generated%d" % k, partial(ob_read, charts, bp, comments=rng.random() < 0.3),
                              bound="generated .sm (seed %d): %d chart(s) %s, #BPMS at beats %s with symbolic tempos" % (seed, len(charts), [(c[0], [m[0] for m in c[1]]) for c in charts], bp)))
    pnames = list(patterns(4))
    B = "charts %s; #BPMS at beats %s with symbolic tempos; #OFFSET, sample window symbolic"
    combos = []
    for keys in (4, 3, 6, 7, 8):
        for pi, pn in enumerate(pnames):
            for bi, bs in enumerate(BPM_SETS):
                if quick and not ((pi + bi + keys) % 4 == 0 or (keys == 4 and bi in (0, 2) and pi < 4) or (pn == "20+28-rows" and bi in (0, 3)) or (bs == "tie" and pi in (0, 2, 4) and keys in (4, 7))):
                    continue
                combos.append(([(keys, pn, "desc", "Hard", 9)], bs))
    for charts, bs in combos:
        keys, pn = charts[0][0], charts[0][1]
        obs.append(Obligation("C02/read/K%d/%s/bpms=%s" % (keys, pn, bs), partial(ob_read, charts, bs), bound=B % (charts, BPM_SETS[bs])))
    multi = [[(4, "taps", "a", "Easy", 1), (4, "hold-across-measures", "b", "Edit", 12)], [(6, "mixed-symbols", "x", "Hard", 7), (4, "taps", "y", "Edit", 3), (8, "roll+hold", "z", "Edit", 4)],
             [(4, "taps", "same", "Edit", 5), (4, "hold-in-measure", "other", "Edit", 5)]]
    for mi, charts in enumerate(multi):
        for bs in (("mid+line",) if quick else ("one", "mid+line", "third")):
            obs.append(Obligation("C02/read/multi%d/bpms=%s" % (mi, bs), partial(ob_read, charts, bs), bound=B % (charts, BPM_SETS[bs])))
    one = [(4, "hold-across-measures", "d", "Hard", 9)]
    obs.append(Obligation("C02/read/no-stops-tag", partial(ob_read, one, "mid-measure", stops_tag=""), bound="file without any #STOPS tag"))
    obs.append(Obligation("C02/read/comments-and-blank-lines", partial(ob_read, one, "mid-measure", comments=True), bound="comment line and blank line between rows"))
    for pn in ("mixed-symbols", "roll+hold", "two-holds-one-column"):
        obs.append(Obligation("C02/read/comments-and-blank-lines/%s" % pn, partial(ob_read, [(4, pn, "d", "Hard", 9)], "mid-measure", comments=True),
                              bound="pattern %s with comments after consecutive rows that hold objects, comment lines, blank lines" % pn))
    obs.append(Obligation("C02/read/header-comments-containing-#", partial(ob_read, one, "mid-measure", header_comment=True), bound="comment lines containing '#' before #OFFSET and #BPMS"))
    for width, ctype in ((8, "dance-couple"), (8, "dance-routine"), (5, "pump-single"), (10, "pump-double"), (6, "pump-halfdouble")):
        for pn, bs in (("taps", "mid-measure"), ("roll+hold", "one"), ("mixed-symbols", "measure-line")) if not quick else (("mixed-symbols", "mid-measure"), ("roll+hold", "one")):
            obs.append(Obligation("C02/read/%s/%s/bpms=%s" % (ctype, pn, bs), partial(ob_read, [((width, ctype), pn, "d", "Edit", 3)], bs),
                                  bound="chart type %s with %d columns, pattern %s, #BPMS %s" % (ctype, width, pn, BPM_SETS[bs])))
    for mi, charts in enumerate(multi[:2]):
        obs.append(Obligation("C02/read/stray-text-between-tags/multi%d" % mi, partial(ob_read, charts, "mid+line", stray=True),
                              bound="charts %s, each #NOTES tag preceded by a line of text without comment marker (skipped by the MSD rules)" % (charts,)))
    obs.append(Obligation("C02/read/as-line-list", partial(ob_read, one, "measure-line", as_lines=True), bound="SMMapSet.read given a list of lines"))
    obs.append(Obligation("C02/read/selectable-no", partial(ob_read, one, "one", selectable="NO"), bound="#SELECTABLE:NO"))
    return obs
