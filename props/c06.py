"""C06 - Quaver file and in-memory chart denote the same chart, both directions (document level: the YAML text layer is
libyaml's C scanner/emitter and is exercised only in the unhooked replay)."""
from __future__ import annotations

import copy
import itertools
from functools import partial

from symx.run import Obligation
from symx.core import SymNum, isna, p_integral
from symx import hook
from oracles import qua as ref
from .common import classes, col, cell_same, same_multiset, build_map, MapSnap

META = dict(AudioFile="a.mp3", SongPreviewTime=1234, BackgroundFile="bg.png", BannerFile="", Genre="g", BPMDoesNotAffectScrollVelocity=True,
            InitialScrollVelocity=1.0, HasScratchKey=False, MapId=-1, MapSetId=-1, Mode="Keys4", Title="Ti: tle", Artist="Ar #tist", Source="", Tags="a b",
            Creator="me", DifficultyName="Hard", Description="d", EditorLayers=[], CustomAudioSamples=[], SoundEffects=[])


def _read(doc):
    from reamber.quaver import QuaMap

    if hook.installed():
        hook.STUBS["yaml_safe_load"] = lambda *a, **k: copy.deepcopy(doc)
        try:
            return QuaMap.read("stub")
        finally:
            hook.STUBS.pop("yaml_safe_load", None)
    import yaml

    return QuaMap.read(yaml.safe_dump(_plain(doc), sort_keys=False))


def _write(m):
    if hook.installed():
        got = {}
        hook.STUBS["yaml_dump"] = lambda d, *a, **k: got.setdefault("doc", d) and "stub"
        try:
            m.write()
        finally:
            hook.STUBS.pop("yaml_dump", None)
        return got["doc"]
    import yaml

    return yaml.safe_load(m.write())


def _plain(x):
    from fractions import Fraction

    if isinstance(x, dict):
        return {k: _plain(v) for k, v in x.items()}
    if isinstance(x, list):
        return [_plain(v) for v in x]
    if isinstance(x, Fraction):
        return int(x) if x.denominator == 1 else float(x)
    return x


def _int_like(v):
    return p_integral(v.p)


def _doc(ctx, keys, notes, tps, svs, meta=True):
    """notes: list of (kind, has_start, has_keysounds); tps: list of has_start; svs: list of (has_start, has_mult)."""
    d = dict(META) if meta else {}
    d["Mode"] = "Keys%d" % keys
    objs = []
    for i, (kind, hs, hk) in enumerate(notes):
        o = {}
        t = ctx.int("nt%d" % i, -100000, 1000000)
        if hs:
            o["StartTime"] = t
        o["Lane"] = (i % keys) + 1
        if kind == "hold":
            ln = ctx.int("nlen%d" % i, 0, 100000)
            o["EndTime"] = (t if hs else 0) + ln
        if hk:
            o["KeySounds"] = [dict(Sample=i + 1, Volume=80)]
        objs.append(o)
    d["HitObjects"] = objs
    tpl = []
    for i, hs in enumerate(tps):
        b = ctx.real("bpm%d" % i)
        ctx.assume(b > 0)
        o = dict(Bpm=b)
        if hs:
            o["StartTime"] = ctx.real("bt%d" % i)
        tpl.append(o)
    d["TimingPoints"] = tpl
    svl = []
    for i, (hs, hm) in enumerate(svs):
        o = {}
        if hs:
            o["StartTime"] = ctx.real("st%d" % i)
        if hm:
            o["Multiplier"] = ctx.real("mult%d" % i)
        svl.append(o)
    d["SliderVelocities"] = svl
    return d


def _lib(m):
    g = lambda df, c: col(df, c) if c in df.columns else [None] * len(df)
    h, l, b, s = m.hits.df, m.holds.df, m.bpms.df, m.svs.df
    return dict(hits=list(zip(g(h, "offset"), g(h, "column"), g(h, "keysounds"))),
                holds=list(zip(g(l, "offset"), g(l, "column"), g(l, "length"), g(l, "keysounds"))),
                bpms=list(zip(g(b, "offset"), g(b, "bpm"))), svs=list(zip(g(s, "offset"), g(s, "multiplier"))))


def _den(d, with_mult=True):
    x = ref.denote(d)
    return dict(hits=[(o["t"], o["col"], o["keysounds"]) for o in x["hits"]], holds=[(o["t"], o["col"], o["len"], o["keysounds"]) for o in x["holds"]],
                bpms=[(o["t"], o["bpm"]) for o in x["bpms"]], svs=[(o["t"], o["mult"]) for o in x["svs"]], raw=x)


def _cmp(ctx, label, A, B, ms=False, skip_sv_values=False):
    from fractions import Fraction

    for k in ("hits", "holds", "bpms", "svs"):
        ctx.check("%s.%s.count" % (label, k), len(A[k]) == len(B[k]), note="%d vs %d" % (len(A[k]), len(B[k])))
        # (the 1.001 ms twin yields counterexamples that violate the bound by a margin and so survive the replay's float tolerance)
        for bound, tag in (((1, "-within-1ms"), (Fraction(1001, 1000), "-within-1.001ms")) if ms else ((None, ""),)):
            def eq(a, b, k=k, bound=bound):
                conds = []
                for i, (x, y) in enumerate(zip(a, b)):
                    if ms and i == 0:
                        conds.append(False if isna(x) or isna(y) else ctx.within(x, y, bound))
                    elif ms and k == "holds" and i == 2:
                        conds.append(False if isna(x) or isna(y) else ctx.within(a[0] + x, b[0] + y, bound))
                    elif k == "svs" and i == 1 and skip_sv_values:
                        conds.append(True)
                    else:
                        conds.append(cell_same(ctx, x, y))
                return ctx.all(*conds)

            ctx.check("%s.%s.same-objects%s" % (label, k, tag), same_multiset(ctx, A[k], B[k], eq=eq), note="%r vs %r" % (A[k][:2], B[k][:2]))


def _cmp_meta(ctx, label, m, d):
    pairs = dict(AudioFile=m.audio_file, SongPreviewTime=m.song_preview_time, BackgroundFile=m.background_file, Genre=m.genre, Mode=m.mode, Title=m.title,
                 Artist=m.artist, Creator=m.creator, DifficultyName=m.difficulty_name, Description=m.description, Tags=" ".join(m.tags), MapId=m.map_id,
                 HasScratchKey=m.has_scratch_key, InitialScrollVelocity=m.initial_scroll_velocity)
    for k, v in pairs.items():
        if k in d:
            ctx.check("%s.meta[%s]" % (label, k), cell_same(ctx, v, d[k]), note="%r vs %r" % (v, d[k]))


def ob_read(keys, notes, tps, svs, ctx, meta=True):
    d = _doc(ctx, keys, notes, tps, svs, meta)
    m = _read(d)
    den = _den(d)
    all_mult = all(hm for _hs, hm in svs)
    _cmp(ctx, "read", _lib(m), den, skip_sv_values=not all_mult)
    # (an omitted Multiplier is read as 1.0 by QuaMap.read while the format's rule gives 0: both readings are accepted, anything
    #  else is not a default of the format or of the library's documented reader)
    if not all_mult:
        rows = _lib(m)["svs"]
        ok = []
        for (hs, hm), spec_sv in zip(svs, d["SliderVelocities"]):
            if not hm:
                t0 = spec_sv.get("StartTime", 0)
                ok.append(ctx.any(*[ctx.all(cell_same(ctx, r[0], t0), ctx.any(cell_same(ctx, r[1], 1), cell_same(ctx, r[1], 0))) for r in rows]))
        ctx.check("read.svs.omitted-multiplier-is-1-or-0", ctx.all(*ok), note="%r" % (rows,))
    _cmp_meta(ctx, "read", m, d)
    for k in ("hits", "holds"):
        df = m.objs[k].df
        bad = [c for c in df.columns if any(isna(v) for v in col(df, c))]
        ctx.check("read.%s.no-missing-values" % k, not bad, note="%s" % bad)
        ctx.check("read.%s.keysounds-are-lists" % k, all(isinstance(v, list) for v in col(df, "keysounds")) if "keysounds" in df.columns else False)
    # write what was read: same document content up to the resolution
    d2 = _write(m)
    bad = ref.schema_violations(d2, _int_like)
    ctx.check("write-of-read.schema", not bad, note="; ".join(bad[:3]))
    _cmp(ctx, "write-of-read-denotes-the-document", _den(d2), den, ms=True, skip_sv_values=not all_mult)
    for i, x in enumerate(col(m.hits.df, "offset")):
        ctx.observe("hit%d.t" % i, x)


META_ATTR = dict(AudioFile="audio_file", SongPreviewTime="song_preview_time", BackgroundFile="background_file", BannerFile="banner_file", Genre="genre",
                 BPMDoesNotAffectScrollVelocity="bpm_does_not_affect_scroll_velocity", InitialScrollVelocity="initial_scroll_velocity", HasScratchKey="has_scratch_key",
                 MapId="map_id", MapSetId="map_set_id", Mode="mode", Title="title", Artist="artist", Source="source", Creator="creator", DifficultyName="difficulty_name",
                 Description="description", EditorLayers="editor_layers", CustomAudioSamples="custom_audio_samples", SoundEffects="sound_effects")


def ob_read_meta_subset(omitted, ctx):
    """every metadata key carries a value of its own (the numeric ones symbolic); the keys in `omitted` are left out: a declared key
    is read as declared, an omitted key as the reader's default (what a document without metadata gives), whatever the other keys say"""
    full = dict(AudioFile="au.mp3", SongPreviewTime=ctx.int("preview", 0, 10**7), BackgroundFile="bg.png", BannerFile="bn.png", Genre="gen", BPMDoesNotAffectScrollVelocity=True,
                InitialScrollVelocity=ctx.real("isv"), HasScratchKey=True, MapId=ctx.int("map_id", 0, 10**7), MapSetId=ctx.int("map_set_id", 0, 10**7), Mode="Keys7", Title="Ti",
                Artist="Ar", Source="So", Tags="t1 t2", Creator="Cr", DifficultyName="Di", Description="De", EditorLayers=[dict(Name="L1")], CustomAudioSamples=[dict(Path="p.wav")],
                SoundEffects=[dict(StartTime=5, Sample=1, Volume=50)])
    ctx.assume(full["MapId"] != full["MapSetId"])
    body = dict(HitObjects=[dict(StartTime=100, Lane=1, KeySounds=[])], TimingPoints=[dict(StartTime=0, Bpm=120)], SliderVelocities=[])
    d = {k: v for k, v in full.items() if k not in omitted}
    d.update(copy.deepcopy(body))
    m = _read(d)
    m0 = _read(copy.deepcopy(body))
    for k, attr in META_ATTR.items():
        got = getattr(m, attr)
        if k in omitted:
            ctx.check("read.meta{%s}.omitted-key-has-the-default" % k, cell_same(ctx, got, getattr(m0, attr)), note="%r vs default %r" % (got, getattr(m0, attr)))
        else:
            ctx.check("read.meta{%s}.as-declared" % k, cell_same(ctx, got, full[k]) if not isinstance(full[k], list) else got == full[k], note="%r vs %r" % (got, full[k]))
    ctx.check("read.meta{Tags}", list(m.tags) == ([] if "Tags" in omitted else ["t1", "t2"]), note="%r" % (m.tags,))
    d2 = _write(m)
    for k in META_ATTR:
        if k not in omitted:
            ctx.check("write-of-read.meta{%s}.as-declared" % k, k in d2 and (cell_same(ctx, d2[k], full[k]) if not isinstance(full[k], list) else d2[k] == full[k]), note="%r" % (d2.get(k),))


def _chart(ctx, keys, nh, nl, nb, ns):
    C = classes("qua")
    hits = [(ctx.real("ht%d" % i), i % keys, dict(keysounds=[] if i % 2 else [dict(Sample=1, Volume=50)])) for i in range(nh)]
    holds = []
    for i in range(nl):
        ln = ctx.real("llen%d" % i)
        ctx.assume(ln >= 0)
        holds.append((ctx.real("lt%d" % i), (i + 1) % keys, ln, dict(keysounds=[])))
    bpms = []
    for i in range(nb):
        b = ctx.real("bpm%d" % i)
        ctx.assume(b > 0)
        bpms.append((ctx.real("bt%d" % i), b))
    svs = [(ctx.real("st%d" % i), ctx.real("mult%d" % i)) for i in range(ns)]
    m = build_map("qua", hits, holds, bpms, svs)
    m.mode = "Keys%d" % keys
    m.title, m.artist, m.creator, m.difficulty_name, m.audio_file = "T: x", "A", "C", "D #1", "a.mp3"
    m.tags = ["p", "q"]
    return m


def _check_written(ctx, label, m, d):
    bad = ref.schema_violations(d, _int_like)
    ctx.check(label + ".schema", not bad, note="; ".join(bad[:3]))
    _cmp(ctx, label + ".denotes-chart", _den(d), _lib(m), ms=True)
    _cmp_meta(ctx, label, m, d)


def ob_write(keys, shape, ctx):
    m = _chart(ctx, keys, *shape)
    snap = MapSnap(m)
    d = _write(m)
    snap.same(ctx, m, "source")
    _check_written(ctx, "written", m, d)
    m2 = _read(d)
    _cmp(ctx, "read-of-written", _lib(m2), _den(d))
    _cmp(ctx, "read-of-written-is-the-chart", _lib(m2), _lib(m), ms=True)
    d3 = _write(m2)
    _cmp(ctx, "second-generation-denotes-first", _den(d3), _den(d))


def ob_converted(cname, hist, ctx):
    """charts that reach the writer through a converter"""
    from .c08 import CONVERTERS, _source, _apply_history, conv

    sg, tg = CONVERTERS[cname]
    src, charts, names = _source(ctx, sg)
    for ch in charts:  # non-negative times: int() truncation then never forks on the sign (signs are covered by C06/write)
        for tl in ch.objs.values():
            for x in col(tl.df, "offset"):
                ctx.assume(x >= 0)
            if "length" in tl.df.columns:
                for x in col(tl.df, "length"):
                    ctx.assume(x >= 0)
    new = _apply_history(ctx, hist, charts)
    if sg in ("sm", "o2j"):
        src.maps = new
    else:
        src = new[0]
    out = conv(cname).convert(src)
    qm = out[0] if isinstance(out, list) else out
    d = _write(qm)
    _check_written(ctx, "converted-then-written", qm, d)
    m2 = _read(d)
    _cmp(ctx, "read-back", _lib(m2), _lib(qm), ms=True)


def obligations(tier, seed):
    quick = tier == "quick"
    obs = []
    N = lambda kind, hs, hk: (kind, hs, hk)
    note_sets = [
        [N("hit", True, True), N("hold", True, True)],
        [N("hit", False, True), N("hit", True, False)],
        [N("hold", False, True), N("hold", True, False)],
        [N("hold", False, False)],
        [N("hit", True, False)],
        [N("hit", False, False), N("hold", False, False)],
        [],
        [N("hit", True, True), N("hold", True, True), N("hit", True, False), N("hold", True, True)],  # interleaved, as Quaver lists them (by time)
    ]
    if not quick:
        note_sets += [[N("hit", a, b), N("hold", c, d), N("hit", True, True)] for a, b, c, d in itertools.product((True, False), repeat=4)][::3]
    tp_sets = [[True], [False], [True, True], []] if not quick else [[True], [False, True]]
    sv_sets = [[(True, True)], [(False, True)], [], [(True, False)], [(True, True), (False, False)]]
    for keys in ((4, 7) if quick else (4, 7, 8)):
        for ni, notes in enumerate(note_sets):
            for ti, tps in enumerate(tp_sets):
                for si, svs in enumerate(sv_sets):
                    if quick and (ni + ti + si) % 3 and not (ni in (1, 2, 3, 7) and ti == 0 and si == 0):
                        continue
                    if keys != 4 and (ti or si):
                        continue
                    obs.append(Obligation("C06/read/K%d/notes%d/tp%d/sv%d" % (keys, ni, ti, si), partial(ob_read, keys, notes, tps, svs),
                                          bound="document with %d lanes; objects %s (kind, StartTime present, KeySounds present); timing points StartTime present %s; SVs (StartTime, Multiplier present) %s; all numbers symbolic"
                                                % (keys, notes, tps, svs), max_paths=5000, timeout_s=240))
    keys_ = list(META_ATTR) + ["Tags"]
    subsets = [()] + [(k,) for k in keys_] + [("MapId", "MapSetId"), ("Title", "Artist", "Creator"), ("Mode", "HasScratchKey")]
    for om in subsets:
        obs.append(Obligation("C06/read/meta-omitted=%s" % ("+".join(om) or "none"), partial(ob_read_meta_subset, om),
                              bound="document declaring every metadata key with its own value (ids, preview time, initial scroll velocity symbolic) except %s" % (list(om),)))
    obs.append(Obligation("C06/read/no-metadata", partial(ob_read, 4, note_sets[0], [True], [], meta=False), bound="document with the three sections only (every metadata key omitted)"))
    for keys in (4, 7, 8):
        for shape in ([(2, 1, 1, 1), (0, 2, 1, 0), (2, 0, 2, 2), (0, 0, 1, 0)] if quick else [(2, 1, 1, 1), (0, 2, 1, 0), (2, 0, 2, 2), (0, 0, 1, 0), (3, 2, 1, 1), (1, 3, 2, 0)]):
            if quick and keys != 4 and shape != (2, 1, 1, 1):
                continue
            obs.append(Obligation("C06/write/K%d/%s" % (keys, "-".join(map(str, shape))), partial(ob_write, keys, shape),
                                  bound="in-memory Quaver chart, %d lanes, %d hits, %d holds, %d tempo points, %d SVs, symbolic reals; written document vs schema and chart; two generations" % ((keys,) + shape),
                                  max_paths=5000, timeout_s=240))
    for cname in ("OsuToQua", "SMToQua", "BMSToQua", "O2JToQua"):
        for hist in (("fresh", "stack", "sorted-rev") if quick else ("fresh", "stack", "filter", "sorted-rev", "append", "slice")):  # (a rate change makes the truncation conditions non-linear: covered by C08/C13)
            obs.append(Obligation("C06/converted/%s/%s" % (cname, hist), partial(ob_converted, cname, hist),
                                  bound="chart produced by %s (source history %s) written as .qua: schema, denotation, read-back" % (cname, hist), max_paths=5000, timeout_s=240))
    return obs
