"""C05 - BMS writing produces a file that denotes the in-memory chart."""
from __future__ import annotations

import itertools
import re
from fractions import Fraction as F
from functools import partial

from symx.run import Obligation
from symx.core import SymNum, isna
from oracles import bms as ref
from .common import classes, col, cell_same, same_multiset, same_steps, MapSnap
from .c04 import layout, ref_layout, lane_channels, LAYOUTS

LINE = re.compile(rb"^#\d{3}[0-9A-Z]{2}:([0-9A-Za-z~]{2})*$")


class Grid0:
    """tempo points at beats (first at beat 0 = 0 ms), symbolic beat lengths."""

    def __init__(self, ctx, beats, concrete=None):
        self.beats = [F(b) for b in beats]
        self.Ls = []
        for i in range(len(beats)):
            if concrete:
                self.Ls.append(F(concrete[i]))
            else:
                L = ctx.real("L%d" % i)
                ctx.assume(L >= 1)  # bpm between 1 and 60000: the writer prints three decimals of the bpm
                ctx.assume(L <= 60000)
                self.Ls.append(L)
        self.starts = [0]
        for i in range(1, len(beats)):
            self.starts.append(self.starts[-1] + (self.beats[i] - self.beats[i - 1]) * self.Ls[i - 1])

    def t(self, p):
        p = F(p) if not isinstance(p, SymNum) else p
        j = max(i for i, b in enumerate(self.beats) if (b <= p if not isinstance(p, SymNum) else bool(b <= p)))
        return self.starts[j] + (p - self.beats[j]) * self.Ls[j]


def chart(ctx, grid, hits, holds, samples=True, bpm_order=None):
    """hits: [(col, beat, sample)], holds: [(col, beat, end, sample)]"""
    C = classes("bms")
    m = C["Map"]()
    m.hits = C["HitList"]([C["Hit"](grid.t(p), c, sample=s) for c, p, s in hits])
    m.holds = C["HoldList"]([C["Hold"](grid.t(p), c, grid.t(e) - grid.t(p), sample=s) for c, p, e, s in holds])
    rows = [C["Bpm"](grid.starts[i], 60000 / grid.Ls[i]) for i in range(len(grid.beats))]
    if bpm_order:
        rows = [rows[i] for i in bpm_order]
    m.bpms = C["BpmList"](rows)
    m.title, m.artist, m.version = b"The Title", b"some one", b"12"
    if samples:
        m.samples = {b"01": b"kick.wav", b"0Z": b"sn are.wav"}
    m.misc = {b"GENRE": b"gen re", b"RANK": b"3"}
    return m


def check_written(ctx, label, m, out, lay, hits, holds, grid, tol=None, default_id=b"01"):
    lines = out.split(b"\r\n")
    d = ref.parse(ctx, lines, ref_layout(lay))
    ctx.check(label + ".syntax.no-ill-formed-line", not d["ill_formed"], note="%r" % d["ill_formed"][:2])
    data_lines = [l for l in lines if re.match(rb"^#\d{3}", l)]
    ctx.check(label + ".syntax.data-line-shape", all(LINE.match(l) for l in data_lines), note="%r" % [l for l in data_lines if not LINE.match(l)][:2])
    known = {v: k for k, v in m.samples.items()}
    file_samples = d["wav"]

    def smp(s):  # what the file can say about a sample: the file name of a known one, else whatever id '01' stands for
        return s if s in known else file_samples.get(default_id, b"")

    want_h = [(c, F(p) if not isinstance(p, SymNum) else p, smp(s)) for c, p, s in hits]
    want_l = [(c, F(p), F(e), smp(s)) for c, p, e, s in holds]
    got_h = [(o["col"], o["pos"], o["sample"]) for o in d["hits"]]
    got_l = [(o["col"], o["pos"], o["end"], o["sample"]) for o in d["holds"]]
    ctx.check(label + ".hits.count", len(got_h) == len(want_h), note="file %d, chart %d" % (len(got_h), len(want_h)))
    ctx.check(label + ".holds.count", len(got_l) == len(want_l), note="file %d, chart %d" % (len(got_l), len(want_l)))
    if tol is None:
        ctx.check(label + ".hits.lane-position-sample", same_multiset(ctx, got_h, want_h), note="%r vs %r" % (got_h[:3], want_h[:3]))
        ctx.check(label + ".holds.lane-head-tail-sample", same_multiset(ctx, got_l, want_l), note="%r vs %r" % (got_l[:3], want_l[:3]))
    else:
        eq = lambda a, b: ctx.all(a[0] == b[0], a[-1] == b[-1], *[ctx.within(x, y, tol, strict=False) for x, y in zip(a[1:-1], b[1:-1])])
        ctx.check(label + ".hits.lane-position-within-1/192-beat", same_multiset(ctx, got_h, want_h, eq=eq), note="%r vs %r" % (got_h[:3], want_h[:3]))
        ctx.check(label + ".holds.lane-head-tail-within-1/192-beat", same_multiset(ctx, got_l, want_l, eq=eq))
    # tempo timeline: the file's initial tempo and events reproduce the in-memory tempo list (values up to the 3 decimals written)
    mem = sorted(zip(grid.beats, [60000 / L for L in grid.Ls]), key=lambda p: p[0])
    fil = [(F(0), d["bpm0"])]
    for p, v in d["tempo"]:
        if p == fil[-1][0]:
            fil[-1] = (p, v)
        else:
            fil.append((p, v))
    ctx.check(label + ".tempo.same-timeline-to-3-decimals", same_steps(ctx, fil, mem, F(5001, 10**7)),
              note="file %r vs chart %r" % ([(p, ctx.value(v)) for p, v in fil], [(p, ctx.value(v)) for p, v in mem]))
    h = d["header"]
    ctx.check(label + ".header", (h.get(b"TITLE"), h.get(b"ARTIST"), h.get(b"PLAYLEVEL"), h.get(b"GENRE")) == (m.title, m.artist, m.version, b"gen re"),
              note="%r" % ((h.get(b"TITLE"), h.get(b"ARTIST"), h.get(b"PLAYLEVEL"), h.get(b"GENRE")),))
    return d


def ob_write(lay, hits, holds, beats, ctx, samples=True, bpm_order=None, via_file=False, labels=None, default_id=None):
    from reamber.bms import BMSMap

    nl = len(lane_channels(lay))
    grid = Grid0(ctx, beats)
    # holds use the two last lanes, hits the others (a hit inside a hold of its own lane cannot be expressed with #LNOBJ),
    # except the designated same-lane case "hold then hit" where the hit comes after the tail
    hits = [(c % (nl - 2), p, s) for c, p, s in hits]
    holds = [(nl - 1 - (i % 2), p, e, s) for i, (c, p, e, s) in enumerate(holds)]
    if len(holds) == 1 and holds[0][2] <= 2:
        hits = hits + [(nl - 1, F(5, 2), b"kick.wav")]
    m = chart(ctx, grid, hits, holds, samples=samples, bpm_order=bpm_order)
    if labels == "reverse-sorted":  # row labels are a permutation of 0..n-1
        m.hits, m.holds = m.hits.sorted(reverse=True), m.holds.sorted(reverse=True)
    elif labels == "gaps":  # a filter drops the first hit: labels start at 1
        m.hits = m.hits[[False] + [True] * (len(m.hits) - 1)]
        hits = hits[1:]
    elif labels == "stacked":  # any stack edit re-labels the lists
        m.stack().column += 0
    kw = dict(no_sample_default=default_id) if default_id else {}
    snap = MapSnap(m)
    if via_file:
        import os
        import tempfile

        fd, path = tempfile.mkstemp(suffix=".bms")
        os.close(fd)
        try:
            m.write_file(path, note_channel_config=layout(lay), **kw)
            with open(path, "rb") as f:
                out = f.read()
        finally:
            os.unlink(path)
    else:
        out = m.write(note_channel_config=layout(lay), **kw)
    snap.same(ctx, m, "source")
    check_written(ctx, "written", m, out, lay, hits, holds, grid, default_id=default_id or b"01")
    # read back by the library: same objects again
    m2 = BMSMap.read([l.decode("ascii") for l in out.split(b"\r\n")], note_channel_config=layout(lay))
    ctx.check("read-back.counts", len(m2.hits) == len(hits) and len(m2.holds) == len(holds), note="%d/%d vs %d/%d" % (len(m2.hits), len(m2.holds), len(hits), len(holds)))


def ob_many_tempos(n, ctx):
    """n tempo points on consecutive measure lines (ids run through the base-36 table), one symbolic among them"""
    C = classes("bms")
    Lsym = ctx.real("Lx")
    ctx.assume(Lsym >= 1)
    ctx.assume(Lsym <= 60000)
    Ls = [F(60000, 60 + (i % 240)) for i in range(n)]
    Ls[n // 2] = Lsym
    starts = [0]
    for i in range(1, n):
        starts.append(starts[-1] + 4 * Ls[i - 1])
    m = C["Map"]()
    m.bpms = C["BpmList"]([C["Bpm"](starts[i], 60000 / Ls[i]) for i in range(n)])
    m.hits = C["HitList"]([C["Hit"](starts[n - 1] + 2 * Ls[n - 1], 1, sample=b"kick.wav"), C["Hit"](starts[1], 2, sample=b"kick.wav")])
    m.title, m.artist, m.version = b"T", b"A", b"1"
    m.samples = {b"01": b"kick.wav"}
    out = m.write()
    lines = out.split(b"\r\n")
    d = ref.parse(ctx, lines, ref_layout("BME"))
    ctx.check("many-tempos.syntax", not d["ill_formed"], note="%r" % d["ill_formed"][:2])
    data_lines = [l for l in lines if re.match(rb"^#\d{3}", l)]
    ctx.check("many-tempos.data-line-shape", all(LINE.match(l) for l in data_lines), note="%r" % [l for l in data_lines if not LINE.match(l)][:2])
    fil = [(F(0), d["bpm0"])]
    for p, v in d["tempo"]:
        if p == fil[-1][0]:
            fil[-1] = (p, v)
        else:
            fil.append((p, v))
    mem = [(F(4 * i), 60000 / Ls[i]) for i in range(n)]
    ctx.check("many-tempos.same-timeline-to-3-decimals", same_steps(ctx, fil, mem, F(5001, 10**7)), note="%d file tempo events vs %d tempo points" % (len(fil), n))
    ctx.check("many-tempos.hits", sorted((o["col"], o["pos"]) for o in d["hits"]) == [(1, F(4 * (n - 1) + 2)), (2, F(4))], note="%r" % [(o["col"], o["pos"]) for o in d["hits"]])


def ob_offgrid(lo, hi, ctx):
    """a hit at grid + eps beats (concrete tempo): written within 1/192 beat"""
    grid = Grid0(ctx, [0, 4], concrete=[500, 375])
    eps = ctx.real("eps")
    ctx.assume(eps >= lo)
    ctx.assume(eps < hi)
    p = F(11, 2) + eps
    hits = [(1, p, b"kick.wav"), (2, F(1), b"kick.wav")]
    m = chart(ctx, grid, [(1, F(1), b"kick.wav")], [])
    C = classes("bms")
    m.hits = C["HitList"]([C["Hit"](grid.starts[1] + (p - 4) * grid.Ls[1], 1, sample=b"kick.wav"), C["Hit"](grid.t(1), 2, sample=b"kick.wav")])
    out = m.write(note_channel_config=layout("BME"))
    check_written(ctx, "written", m, out, "BME", hits, [], grid, tol=F(1, 192) * (1 + F(1, 10**9)))


HITS = {
    "basic": [(0, 0, b"kick.wav"), (1, F(1, 2), b"sn are.wav"), (2, F(9, 4), b"kick.wav"), (99, 4, b"kick.wav"), (3, F(19, 3), b"other.wav"), (0, F(8) + F(1, 48), b"")],
    "same-slot-other-lane": [(0, 1, b"kick.wav"), (1, 1, b"kick.wav"), (2, 1, b"sn are.wav")],
    "sevenths": [(0, F(17, 7), b"kick.wav"), (0, F(7, 3), b"kick.wav"), (1, F(15, 11) + 4, b"kick.wav"), (1, F(30, 11) + 4, b"kick.wav")],
    "late": [(1, 13, b"kick.wav"), (0, F(53, 4), b"kick.wav")],
}
HOLDS = {
    "none": [],
    "basic": [(4, 1, F(5, 2), b"kick.wav"), (5, F(7, 2), 9, b"sn are.wav")],
    "hold-then-hit-same-lane": [(0, F(1, 3), 2, b"kick.wav")],
}


def obligations(tier, seed):
    quick = tier == "quick"
    obs = []
    tempos = {"one": [0], "two": [0, 4], "three": [0, 4, 12], "far": [0, 16]}
    for lay in LAYOUTS:
        for hn, hits in HITS.items():
            for ln, holds in HOLDS.items():
                for tn, beats in tempos.items():
                    if quick and not (lay == "BME" or (hn == "basic" and ln == "basic" and tn == "two") or (hn == "same-slot-other-lane" and tn == "one" and ln == "none")):
                        continue
                    if quick and lay == "BME" and (len(hn) + len(ln) + len(tn)) % 2 and not (hn == "sevenths"):
                        continue
                    obs.append(Obligation("C05/write/%s/hits=%s/holds=%s/tempo=%s" % (lay, hn, ln, tn), partial(ob_write, lay, hits, holds, beats),
                                          bound="layout %s, hits %s, holds %s at grid positions, tempo points at beats %s with symbolic beat lengths; first tempo point at 0 ms" % (lay, hn, ln, beats),
                                          max_paths=300, timeout_s=200))
    for lay in LAYOUTS:
        obs.append(Obligation("C05/write_file/%s" % lay, partial(ob_write, lay, HITS["basic"], HOLDS["basic"], [0, 4], via_file=True),
                              bound="BMSMap.write_file(path, note_channel_config=%s): the bytes in the file are checked" % lay))
    for lab in ("reverse-sorted", "gaps", "stacked"):
        obs.append(Obligation("C05/write/BME/row-labels=%s" % lab, partial(ob_write, "BME", HITS["basic"], HOLDS["basic"], [0, 4], labels=lab),
                              bound="hit/hold lists whose row labels are not 0..n-1 (%s)" % lab))
    obs.append(Obligation("C05/write/BME/no_sample_default=0Z", partial(ob_write, "BME", HITS["basic"], [(4, 1, F(5, 2), b"unknown.wav"), (5, F(7, 2), 9, b"")], [0, 4], default_id=b"0Z"),
                          bound="objects with unknown samples written with no_sample_default=0Z (hits and hold heads)"))
    for n in ((400,) if quick else (400, 999)):  # (measure numbers have three digits: 1000 measures is the most a file can hold)
        obs.append(Obligation("C05/write/many-tempos/%d" % n, partial(ob_many_tempos, n), bound="%d tempo points on consecutive measure lines (base-36 ids up to %d), one symbolic tempo" % (n, n),
                              max_paths=50, timeout_s=600))
    obs.append(Obligation("C05/write/BME/no-sample-table", partial(ob_write, "BME", HITS["basic"], HOLDS["basic"], [0, 4], samples=False), bound="chart without a #WAV table (default id for every object)"))
    for order in ((1, 0), (2, 0, 1), (1, 2, 0)):
        beats = tempos["two"] if len(order) == 2 else tempos["three"]
        obs.append(Obligation("C05/write/BME/tempo-rows=%s" % "".join(map(str, order)), partial(ob_write, "BME", HITS["basic"], HOLDS["basic"], beats, bpm_order=order),
                              bound="tempo list rows in order %s (unsorted list, e.g. append without sort)" % (order,)))
    n = 2 if quick else 16
    for i in range(n):
        lo, hi = (F(i, 192 * n) * 2, F(i + 1, 192 * n) * 2)
        obs.append(Obligation("C05/offgrid/eps[%s,%s)" % (lo, hi), partial(ob_offgrid, lo, hi),
                              bound="a hit %s..%s beat off the half-beat grid (concrete tempos 120/160), written position within 1/192 beat" % (lo, hi), max_paths=20000, timeout_s=600))
    return obs
