"""C01 - osu!mania file and in-memory chart denote the same chart, both directions."""
from __future__ import annotations

import itertools
from functools import partial

from symx.run import Obligation
from symx.core import SymNum, isna
from oracles import osu as ref
from .common import classes, col, cell_same, same_multiset, is_int_numeral, MapSnap

HEAD = """osu file format v14

[General]
AudioFilename: audio.mp3
AudioLeadIn: 0
PreviewTime: %(preview)s
Countdown: 0
SampleSet: Soft
StackLeniency: 0.7
Mode: 3
LetterboxInBreaks: 0
SpecialStyle: 0
WidescreenStoryboard: 1

[Editor]
DistanceSpacing: 1.2
BeatDivisor: 4
GridSize: 8
TimelineZoom: 2.5

[Metadata]
Title:%(title)s
TitleUnicode:%(title)s
Artist:art
ArtistUnicode:art
Creator:me
Version:%(version)s
Source:src
Tags:a b
BeatmapID:12
BeatmapSetID:34

[Difficulty]
HPDrainRate:7
CircleSize:%(keys)d
OverallDifficulty:8.5
ApproachRate:5
SliderMultiplier:1.4
SliderTickRate:1

[Events]
//Background and Video events
0,0,"bg.jpg",0,0
//Break Periods
//Storyboard Layer 0 (Background)
//Storyboard Sound Samples
%(samples)s

[TimingPoints]
%(timing)s

[HitObjects]
%(objects)s
"""


def _skeleton(ctx, K, nh, nl, nb, ns, ne, order="file"):
    """An .osu text with symbolic numeric content.  Returns (lines, spec) where spec holds the terms used."""
    tk = ctx.tok
    objs, tps, evs = [], [], []
    spec = dict(hits=[], holds=[], bpms=[], svs=[], samples=[])
    for i in range(nh):
        x, t = ctx.int("hx%d" % i, 0, 511), ctx.real("ht%d" % i)
        hs, ss, ad, ix, vol = ctx.int("hhs%d" % i, 0, 15), ctx.int("hss%d" % i, 0, 3), ctx.int("had%d" % i, 0, 3), ctx.int("hix%d" % i, 0, 9), ctx.int("hvol%d" % i, 0, 100)
        f = "" if i % 2 else "hit%d.wav" % i
        objs.append("%s,192,%s,%d,%s,%s:%s:%s:%s:%s" % (tk(x), tk(t), 1 if i % 2 else 5, tk(hs), tk(ss), tk(ad), tk(ix), tk(vol), f))
        spec["hits"].append(dict(x=x, t=t, hitsound=hs, sample_set=ss, addition=ad, index=ix, volume=vol, file=f))
    for i in range(nl):
        x, t, ln = ctx.int("lx%d" % i, 0, 511), ctx.real("lt%d" % i), ctx.real("llen%d" % i)
        ctx.assume(ln >= 0)
        hs, vol = ctx.int("lhs%d" % i, 0, 15), ctx.int("lvol%d" % i, 0, 100)
        ss, ad, ix = ctx.int("lss%d" % i, 0, 3), ctx.int("lad%d" % i, 0, 3), ctx.int("lix%d" % i, 0, 9)
        f = "ln%d.wav" % i if i % 2 else ""
        objs.append("%s,192,%s,128,%s,%s:%s:%s:%s:%s:%s" % (tk(x), tk(t), tk(hs), tk(t + ln), tk(ss), tk(ad), tk(ix), tk(vol), f))
        spec["holds"].append(dict(x=x, t=t, len=ln, hitsound=hs, sample_set=ss, addition=ad, index=ix, volume=vol, file=f))
    for i in range(nb):
        t, code = ctx.real("bt%d" % i), ctx.real("bcode%d" % i)
        ctx.assume(code > 0)
        kiai = ctx.int("bkiai%d" % i, 0, 1)
        tps.append("%s,%s,%d,2,1,%s,1,%s" % (tk(t), tk(code), 4 + i, tk(ctx.int("bvol%d" % i, 0, 100)), tk(kiai)))
        spec["bpms"].append(dict(t=t, code=code, metronome=4 + i, kiai=kiai))
    for i in range(ns):
        t, code = ctx.real("st%d" % i), ctx.real("scode%d" % i)
        ctx.assume(code < 0)
        tps.append("%s,%s,4,1,0,%s,0,0" % (tk(t), tk(code), tk(ctx.int("svol%d" % i, 0, 100))))
        spec["svs"].append(dict(t=t, code=code))
    for i in range(ne):
        t = ctx.real("et%d" % i)
        evs.append("Sample,%s,0,ev%d.wav,%s" % (tk(t), i, tk(ctx.int("evol%d" % i, 0, 100))))
        spec["samples"].append(dict(t=t, file="ev%d.wav" % i))
    if order == "reversed":
        objs.reverse()
        tps.reverse()
    elif order == "interleaved":
        objs = objs[nh:] + objs[:nh]
        tps = tps[nb:] + tps[:nb]
    # sample events: one block / a blank line after the section comment / groups separated by blank and comment lines
    ev_text = "\n".join(evs) if order == "file" else ("\n" + "\n".join(evs) if order == "reversed" else "\n\n//second group\n".join(evs))
    text = HEAD % dict(preview=tk(ctx.int("preview", -1, 10**8)), title="Some Title", version="Hard", keys=K, samples=ev_text, timing="\n".join(tps), objects="\n".join(objs))
    return text.split("\n"), spec


# ---------------------------------------------------------------------------------------------
def _lib_rows(m):
    h, l, b, s, e = m.hits.df, m.holds.df, m.bpms.df, m.svs.df, m.samples.df
    g = lambda df, c: col(df, c) if c in df.columns else [None] * len(df)
    hits = list(zip(g(h, "offset"), g(h, "column"), g(h, "hitsound_set"), g(h, "sample_set"), g(h, "addition_set"), g(h, "custom_set"), g(h, "volume"), g(h, "hitsound_file")))
    holds = list(zip(g(l, "offset"), g(l, "column"), g(l, "length"), g(l, "hitsound_set"), g(l, "sample_set"), g(l, "addition_set"), g(l, "custom_set"), g(l, "volume"), g(l, "hitsound_file")))
    bpms = list(zip(g(b, "offset"), g(b, "bpm"), g(b, "metronome"), g(b, "sample_set"), g(b, "sample_set_index"), g(b, "volume"), g(b, "kiai")))
    svs = list(zip(g(s, "offset"), g(s, "multiplier"), g(s, "sample_set"), g(s, "sample_set_index"), g(s, "volume"), g(s, "kiai")))
    samples = list(zip(g(e, "offset"), g(e, "sample_file"), g(e, "volume")))
    return dict(hits=hits, holds=holds, bpms=bpms, svs=svs, samples=samples)


def _ref_rows(ctx, d):
    kb = lambda x: bool(ctx.ne(x, 0)) if isinstance(x, SymNum) else bool(x)
    hits = [(o["t"], o["col"], o["hitsound"], o["sample_set"], o["addition"], o["index"], o["volume"], o["file"]) for o in d["hits"]]
    holds = [(o["t"], o["col"], o["len"], o["hitsound"], o["sample_set"], o["addition"], o["index"], o["volume"], o["file"]) for o in d["holds"]]
    bpms = [(o["t"], o["bpm"], o["metronome"], o["sample_set"], o["sample_index"], o["volume"], kb(o["kiai"])) for o in d["bpms"]]
    svs = [(o["t"], o["mult"], o["sample_set"], o["sample_index"], o["volume"], kb(o["kiai"])) for o in d["svs"]]
    samples = [(o["t"], o["file"], o["volume"]) for o in d["samples"]]
    return dict(hits=hits, holds=holds, bpms=bpms, svs=svs, samples=samples)


def _cmp_exact(ctx, label, A, B):
    for k in ("hits", "holds", "bpms", "svs", "samples"):
        ctx.check("%s.%s.count" % (label, k), len(A[k]) == len(B[k]), note="%d vs %d" % (len(A[k]), len(B[k])))
        ctx.check("%s.%s.same-objects" % (label, k), same_multiset(ctx, A[k], B[k]), note="%r vs %r" % (A[k][:2], B[k][:2]))


TIME_FIELDS = dict(hits=(0,), holds=(0, 2), samples=(0,), bpms=(), svs=())


def _cmp_ms(ctx, label, A, B):
    """B (denoted by a written file) equals A (the chart) with note/sample times moved by less than 1 ms.  Each facet has a
    twin with the bound 1.001 ms: a counterexample of the twin violates the bound by a margin, so it survives the float
    tolerance of the replay (a counterexample exactly on the bound does not)."""
    from fractions import Fraction

    for k in ("hits", "holds", "bpms", "svs", "samples"):
        ctx.check("%s.%s.count" % (label, k), len(A[k]) == len(B[k]), note="%d vs %d" % (len(A[k]), len(B[k])))
        tf = TIME_FIELDS[k]
        for bound, tag in ((1, "within-1ms"), (Fraction(1001, 1000), "within-1.001ms")):
            def eq(a, b, tf=tf, k=k, bound=bound):
                conds = []
                for i, (x, y) in enumerate(zip(a, b)):
                    if i in tf:
                        if k == "holds" and i == 2:  # compare hold *ends*
                            conds.append(False if isna(x) or isna(y) else ctx.within((a[0] + x), (b[0] + y), bound))
                        else:
                            conds.append(False if isna(x) or isna(y) else ctx.within(x, y, bound))
                    else:
                        conds.append(cell_same(ctx, x, y))
                return ctx.all(*conds)

            if tf or tag == "within-1ms":
                ctx.check("%s.%s.same-objects-%s" % (label, k, tag), same_multiset(ctx, A[k], B[k], eq=eq), note="%r vs %r" % (A[k][:2], B[k][:2]))


def _meta_of_lib(m):
    return dict(Title=m.title, Version=m.version, CircleSize=m.circle_size, PreviewTime=m.preview_time, AudioFilename=m.audio_file_name, Artist=m.artist,
                Creator=m.creator, Source=m.source, Tags=" ".join(m.tags), BeatmapID=m.beatmap_id, BeatmapSetID=m.beatmap_set_id, HPDrainRate=m.hp_drain_rate,
                OverallDifficulty=m.overall_difficulty, Mode=m.mode, SampleSet={0: "None", 1: "Normal", 2: "Soft", 3: "Drum"}.get(m.sample_set), background=m.background_file_name)


def _cmp_meta(ctx, label, m, d):
    lib = _meta_of_lib(m)
    for k, v in lib.items():
        want = d["background"] if k == "background" else d["meta"].get(k)
        if want is None:
            continue
        if isinstance(v, (int, float, SymNum)) and not isinstance(v, bool):
            ok = cell_same(ctx, v, ctx.num(want))
        else:
            ok = str(v) == want
        ctx.check("%s.meta[%s]" % (label, k), ok, note="%r vs %r" % (v, want))


def _well_formed(ctx, label, lines, d):
    ctx.check(label + ".no-ill-formed-lines", not d["ill_formed"], note="%r" % d["ill_formed"][:2])
    want = ["General", "Editor", "Metadata", "Difficulty", "Events", "TimingPoints", "HitObjects"]
    ctx.check(label + ".section-order", d["order"] == want, note="%s" % d["order"])
    sec, _ = ref._sections(lines)
    bad = []
    for s in sec.get("HitObjects", []):
        if not s:
            continue
        f = s.split(",")
        ints = [f[0], f[1], f[2], f[3], f[4]] + f[5].split(":")[:-1]
        bad += [x for x in ints if not is_int_numeral(ctx, x)]
    for s in sec.get("TimingPoints", []):
        if not s:
            continue
        f = s.split(",")
        bad += [x for x in (f[2], f[3], f[4], f[5], f[6], f[7]) if not is_int_numeral(ctx, x)]
    for s in sec.get("Events", []):
        if s.startswith("Sample"):
            f = s.split(",")
            bad += [x for x in (f[1], f[2], f[4]) if not is_int_numeral(ctx, x)]
    ctx.check(label + ".integer-fields-are-integers", not bad, note="%r" % bad[:3])


# ---------------------------------------------------------------------------------------------
def ob_read(K, shape, order, ctx):
    from reamber.osu import OsuMap

    lines, spec = _skeleton(ctx, K, *shape, order=order)
    m = OsuMap.read(lines)
    d = ref.parse(ctx, lines)
    ctx.check("reference.well-formed-input", not d["ill_formed"])
    _cmp_exact(ctx, "read", _lib_rows(m), _ref_rows(ctx, d))
    _cmp_meta(ctx, "read", m, d)
    for i, x in enumerate(col(m.hits.df, "offset")):
        ctx.observe("hit%d.t" % i, x)
    for i, x in enumerate(col(m.hits.df, "column")):
        ctx.observe("hit%d.col" % i, x)
    # read o write o read: the chart read back from the written text is the same chart up to the resolution
    g1 = m.write()
    m2 = OsuMap.read(g1)
    _cmp_ms(ctx, "write-then-read", _lib_rows(m), _lib_rows(m2))


def _chart(ctx, K, nh, nl, nb, ns, ne, perm=False):
    C = classes("osu")
    m = C["Map"]()
    hits = [C["Hit"](ctx.real("ht%d" % i), ctx.int("hc%d" % i, 0, K - 1), hitsound_set=ctx.int("hhs%d" % i, 0, 15), sample_set=i % 4, addition_set=(i + 1) % 4,
                     custom_set=i, volume=ctx.int("hvol%d" % i, 0, 100), hitsound_file="" if i % 2 else "h%d.wav" % i) for i in range(nh)]
    holds = []
    for i in range(nl):
        ln = ctx.real("llen%d" % i)
        ctx.assume(ln >= 0)
        holds.append(C["Hold"](ctx.real("lt%d" % i), ctx.int("lc%d" % i, 0, K - 1), ln, hitsound_set=2, sample_set=1 + i % 3, addition_set=2 - i % 3, custom_set=4 + i,
                               volume=ctx.int("lvol%d" % i, 0, 100), hitsound_file="" if i % 2 else "l%d.wav" % i))
    bpms = []
    for i in range(nb):
        b = ctx.real("bpm%d" % i)
        ctx.assume(b != 0)
        bpms.append(C["Bpm"](ctx.real("bt%d" % i), b, metronome=3 + i, sample_set=1, sample_set_index=2, volume=40 + i, kiai=bool(i % 2)))
    svs = []
    for i in range(ns):
        mu = ctx.real("mult%d" % i)
        ctx.assume(mu != 0)
        svs.append(C["Sv"](ctx.real("st%d" % i), mu, volume=30, kiai=bool((i + 1) % 2)))
    samples = [C["Sample"](ctx.real("et%d" % i), "e%d.wav" % i, 55 + i) for i in range(ne)]
    if perm:
        hits.reverse(), holds.reverse(), bpms.reverse(), svs.reverse(), samples.reverse()
    m.hits, m.holds, m.bpms, m.svs = C["HitList"](hits), C["HoldList"](holds), C["BpmList"](bpms), C["SvList"](svs)
    m.samples = C["SampleList"](samples)
    m.circle_size = K
    m.title, m.title_unicode, m.artist, m.artist_unicode, m.creator, m.version, m.source = "Ti tle", "Ti tle", "Art", "Art", "me", "Insane", "src"
    m.tags = ["x", "y"]
    m.audio_file_name, m.background_file_name = "a.mp3", "bg.png"
    m.preview_time = ctx.int("preview", -1, 10**8)
    m.beatmap_id, m.beatmap_set_id = 5, 6
    return m


def ob_write(K, shape, perm, ctx):
    from reamber.osu import OsuMap

    m = _chart(ctx, K, *shape, perm=perm)
    snap = MapSnap(m)
    g1 = m.write()
    snap.same(ctx, m, "source")
    d1 = ref.parse(ctx, g1)
    _well_formed(ctx, "written", g1, d1)
    _cmp_ms(ctx, "written-denotes-chart", _lib_rows(m), _ref_rows(ctx, d1))
    _cmp_meta(ctx, "written", m, d1)
    # generations: g2 = write(read(g1)), g3 = write(read(g2)) denote exactly what g1 denotes
    m2 = OsuMap.read(g1)
    _cmp_exact(ctx, "read-of-written", _lib_rows(m2), _ref_rows(ctx, d1))
    g2 = m2.write()
    d2 = ref.parse(ctx, g2)
    _cmp_exact(ctx, "generation2-denotes-generation1", _ref_rows(ctx, d2), _ref_rows(ctx, d1))
    g3 = OsuMap.read(g2).write()
    d3 = ref.parse(ctx, g3)
    _cmp_exact(ctx, "generation3-denotes-generation1", _ref_rows(ctx, d3), _ref_rows(ctx, d1))
    for k in ("Title", "Version", "CircleSize", "PreviewTime", "Creator", "Tags", "AudioFilename"):
        ctx.check("generation3.meta[%s]" % k, d3["meta"].get(k) == d1["meta"].get(k) or cell_same(ctx, ctx.num(d3["meta"].get(k)), ctx.num(d1["meta"].get(k)))
                  if k in ("PreviewTime", "CircleSize") else d3["meta"].get(k) == d1["meta"].get(k), note="%r vs %r" % (d3["meta"].get(k), d1["meta"].get(k)))


def ob_colmap(K, ctx):
    from reamber.osu.OsuNoteMeta import OsuNoteMeta

    x = ctx.int("x", 0, 511)
    c = OsuNoteMeta.x_axis_to_column(x, K)
    ctx.check("x_axis_to_column.is-floor(x*K/512)", ctx.eq(c, ref.column_of(ctx, x, K)))
    ctx.check("x_axis_to_column.in-range", ctx.all(ctx.ge(c, 0), ctx.le(c, K - 1)))
    cc = ctx.int("c", 0, K - 1)
    xx = OsuNoteMeta.column_to_x_axis(cc, K)
    ctx.check("column_to_x_axis.inside-the-column", ctx.eq(OsuNoteMeta.x_axis_to_column(xx, K), cc))
    ctx.check("column_to_x_axis.in-playfield", ctx.all(ctx.ge(xx, 0), ctx.lt(xx, 512)))
    ctx.observe("col", c)


META_VALUES = ["plain", "with space", "a:b", "a:b:c", ":lead", "trail:", "  padded  ", "é ü 東方", "1,2", "semi;colon", "", "Re: Zero", "x : y: z", "a //b"]


def ob_meta(key, value, ctx):
    """text fields: the value of ``key:value`` is everything after the first colon (stripped)."""
    from reamber.osu import OsuMap

    attr = dict(Title="title", TitleUnicode="title_unicode", Artist="artist", ArtistUnicode="artist_unicode", Creator="creator", Version="version", Source="source",
                AudioFilename="audio_file_name")[key]
    lines, _spec = _skeleton(ctx, 4, 1, 0, 1, 0, 0)
    lines = [("%s:%s" % (key, value)) if l.startswith(key + ":") else l for l in lines]
    m = OsuMap.read(lines)
    ctx.check("read.%s" % key, getattr(m, attr) == value.strip(), note="%r -> %r" % (value, getattr(m, attr)))
    # write -> read keeps the field (Title/Artist are transliterated to ASCII by design: only ASCII values are compared for them)
    ascii_only = all(ord(ch) < 128 for ch in value)
    if ascii_only or key not in ("Title", "Artist"):
        m2 = OsuMap.read(m.write())
        ctx.check("write-read.%s" % key, getattr(m2, attr) == getattr(m, attr), note="%r -> %r" % (getattr(m, attr), getattr(m2, attr)))


def obligations(tier, seed):
    quick = tier == "quick"
    obs = []
    Ks = (1, 4, 7, 18) if quick else tuple(range(1, 19))
    shapes = [(1, 1, 1, 1, 1), (2, 0, 1, 0, 0), (0, 2, 2, 0, 1), (2, 1, 1, 2, 0)] if quick else \
        [(1, 1, 1, 1, 1), (2, 0, 1, 0, 0), (0, 2, 2, 0, 1), (2, 1, 1, 2, 0), (3, 0, 1, 1, 2), (1, 2, 2, 1, 1), (0, 0, 1, 0, 0), (2, 2, 1, 1, 0)]
    B = "%d keys; %d hits, %d holds, %d tempo points, %d SVs, %d sample events; every time/length/code symbolic real, x / hitsound / volume fields symbolic integers in range"
    for K in Ks:
        for si, sh in enumerate(shapes):
            if quick and K in (1, 18) and si > 1:
                continue
            for order in (("file", "reversed") if (si < 2 or not quick) else ("interleaved",)):
                obs.append(Obligation("C01/read/K%d/%s/%s" % (K, "-".join(map(str, sh)), order), partial(ob_read, K, sh, order),
                                      bound="OsuMap.read of a v14 text, " + B % ((K,) + sh) + "; lines in %s order" % order, max_paths=6000, timeout_s=300))
            if K == 4 and si == 0:
                for order in ("file", "reversed", "interleaved"):
                    sh3 = (1, 0, 1, 0, 3)
                    obs.append(Obligation("C01/read/K%d/%s/%s" % (K, "-".join(map(str, sh3)), order), partial(ob_read, K, sh3, order),
                                          bound="OsuMap.read of a v14 text, " + B % ((K,) + sh3) + "; lines in %s order (sample events in one block / after a blank line / in groups separated by blank and comment lines)" % order,
                                          max_paths=6000, timeout_s=300))
            for perm in (False, True):
                if quick and perm and si > 1:
                    continue
                obs.append(Obligation("C01/write/K%d/%s/%s" % (K, "-".join(map(str, sh)), "rows-reversed" if perm else "rows-in-order"), partial(ob_write, K, sh, perm),
                                      bound="OsuMap.write of an in-memory chart, " + B % ((K,) + sh) + "; three write/read generations", max_paths=6000 if quick else 40000, timeout_s=300 if quick else 2400))
    for K in range(1, 19):
        obs.append(Obligation("C01/colmap/K%d" % K, partial(ob_colmap, K), bound="x_axis_to_column / column_to_x_axis for %d keys, x symbolic integer in [0,512), column symbolic in [0,%d)" % (K, K),
                              max_paths=3000, timeout_s=200))
    from symx import chrun

    # (CrossHair never reports these conditions as confirmed - not even for length <= 2 in 100 s: str.strip/split on a symbolic
    #  str do not exhaust - so they are a counterexample search only; they run in the thorough tier and are reported as inconclusive)
    conds = [] if quick else ["read_title", "read_version", "read_creator", "read_source", "read_artist_unicode", "read_audio",
                                                                "roundtrip_version", "roundtrip_creator", "roundtrip_title_unicode", "roundtrip_source"]
    for fn in conds:
        obs.append(Obligation("C01/text/%s" % fn, chrun.run, kind="ch", params=dict(module="ch.osu_meta", func=fn, timeout=45 if quick else 120),
                              bound="CrossHair: %s with a symbolic str of length <= 4 (no line breaks), %d s" % (fn, 45 if quick else 120), timeout_s=200,
                              assumptions=["engine CH: CrossHair 0.0.110 executes OsuMapMeta._read_meta_string_list / write_meta_string_list on a symbolic str; 'Not confirmed' within the time limit is inconclusive"]))
    keys = ("Title", "Version", "Creator", "Source", "AudioFilename", "TitleUnicode") if quick else ("Title", "TitleUnicode", "Artist", "ArtistUnicode", "Creator", "Version", "Source", "AudioFilename")
    for key in keys:
        for v in META_VALUES:
            if key == "AudioFilename" and v == "":
                continue
            obs.append(Obligation("C01/meta/%s/%r" % (key, v), partial(ob_meta, key, v), bound="metadata line %s:%r (text enumerated, not symbolic)" % (key, v)))
    return obs
