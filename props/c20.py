"""C20 - Pattern grouping partitions the notes; combinations are exactly the allowed ones."""
from __future__ import annotations

import itertools
from functools import partial

import numpy as np

from symx.run import Obligation
from symx.core import SymNum, isna
from .common import classes, same_term


def _types():
    from reamber.base.Hit import Hit
    from reamber.base.Hold import Hold, HoldTail

    return dict(h=Hit, H=Hold, T=HoldTail)


def _rec(r):
    return dict(c=r["column"], t=r["offset"], ty=r["type"])


def _same(ctx, a, b):
    if a["ty"] is not b["ty"]:
        return False
    return ctx.all(ctx.eq(a["c"], b["c"]), ctx.eq(a["t"], b["t"]))


def _definitely(a, b):
    return a["ty"] is b["ty"] and same_term(a["c"], b["c"]) and same_term(a["t"], b["t"])


def _is_perm(A, B):
    if len(A) != len(B):
        return False
    used = [False] * len(B)
    for a in A:
        for j, b in enumerate(B):
            if not used[j] and _definitely(a, b):
                used[j] = True
                break
        else:
            return False
    return True


def _check_groups(ctx, rows, groups, v, h, avoid_jack, label=""):
    flat = [_rec(r) for g in groups for r in g]
    ctx.check(label + "partition.every-note-exactly-once", _is_perm(flat, rows), note="%d notes, groups of sizes %s" % (len(rows), [len(g) for g in groups]))
    ctx.check(label + "partition.no-empty-group", all(len(g) > 0 for g in groups))
    for gi, g in enumerate(groups):
        recs = [_rec(r) for r in g]
        if not recs:
            continue
        first = recs[0]
        ctx.check(label + "group%d.first-is-earliest" % gi, ctx.all(*[ctx.le(first["t"], r["t"]) for r in recs]))
        ctx.check(label + "group%d.within-vertical-window" % gi, ctx.all(*[ctx.all(ctx.ge(r["t"], first["t"]), ctx.le(r["t"], first["t"] + v)) for r in recs]))
        if h is not None:
            ctx.check(label + "group%d.within-horizontal-window" % gi, ctx.all(*[ctx.all(ctx.le(r["c"] - first["c"], h), ctx.le(first["c"] - r["c"], h)) for r in recs]))
        if avoid_jack:
            ctx.check(label + "group%d.no-repeated-column" % gi, ctx.all(*[ctx.ne(a["c"], b["c"]) for a, b in itertools.combinations(recs, 2)]))


def ob_group(kinds, ncols, h, avoid_jack, ctx, via_lists=False, again=None):
    from reamber.algorithms.pattern import Pattern

    TY = _types()
    n = len(kinds)
    t = ctx.reals("t", n)
    cs = [ctx.int("c%d" % i, 0, ncols - 1) if ncols > 1 else 0 for i in range(n)]
    v = ctx.real("v")
    ctx.assume(v >= 0)
    if via_lists:
        C = classes("osu")
        hits = [C["Hit"](t[i], cs[i]) for i, k in enumerate(kinds) if k == "h"]
        holds, lens = [], {}
        for i, k in enumerate(kinds):
            if k == "H":
                ln = ctx.real("len%d" % i)
                ctx.assume(ln >= 0)
                lens[i] = ln
                holds.append(C["Hold"](t[i], cs[i], ln))
        p = Pattern.from_note_lists([C["HitList"](hits), C["HoldList"](holds)], include_tails=True)
        rows = [dict(c=cs[i], t=t[i], ty=C["Hit"] if k == "h" else C["Hold"]) for i, k in enumerate(kinds)]
        rows += [dict(c=cs[i], t=t[i] + lens[i], ty=TY["T"]) for i in lens]
        ctx.check("pattern.len", len(p) == len(rows), note="%d vs %d" % (len(p), len(rows)))
    else:
        p = Pattern(cols=list(cs), offsets=list(t), types=[TY[k] for k in kinds])
        rows = [dict(c=cs[i], t=t[i], ty=TY[k]) for i, k in enumerate(kinds)]
    groups = p.group(v_window=v, h_window=h, avoid_jack=avoid_jack)
    _check_groups(ctx, rows, groups, v, h, avoid_jack)
    if again is not None:  # the same Pattern object grouped a second time with other settings: the answer follows the new settings
        h2, aj2, same_v = again
        v2 = v if same_v else ctx.real("v2")
        ctx.assume(v2 >= 0)
        groups2 = p.group(v_window=v2, h_window=h2, avoid_jack=aj2)
        _check_groups(ctx, rows, groups2, v2, h2, aj2, label="second-call.")
        groups3 = p.group(v_window=v, h_window=h, avoid_jack=avoid_jack)
        _check_groups(ctx, rows, groups3, v, h, avoid_jack, label="first-settings-again.")
    for gi, g in enumerate(groups):
        for ri, r in enumerate(g):
            ctx.observe("g%d.%d.t" % (gi, ri), r["offset"])


# ---------------------------------------------------------------------------------------------
def _table(f):
    return [tuple(r) for r in f.ar.tolist()] if f is not None else None


def _member(ctx, seq, table):
    """seq (tuple of possibly symbolic ints) is a row of the table: forks on symbolic entries."""
    for row in table:
        if len(row) == len(seq) and all(bool(ctx.eq(a, b)) if isinstance(a, SymNum) or isinstance(b, SymNum) else a == b for a, b in zip(seq, row)):
            return True
    return False


def _type_ok(seq, table):
    return any(all(issubclass(x, c) for x, c in zip(seq, row)) for row in table)


def _expected_combos(ctx, groups, size, chord, combo, typ):
    out = []
    for i in range(0, len(groups) - size + 1):
        chunk = groups[i:i + size]
        sizes = tuple(len(g) for g in chunk)
        if chord is not None:
            ok = sizes in chord[0]
            if ok == chord[1]:  # chord = (table, exclude)
                continue
        seqs = []
        for seq in itertools.product(*chunk):
            if combo is not None:
                ok = _member(ctx, tuple(r["c"] for r in seq), combo[0])
                if ok == combo[1]:
                    continue
            if typ is not None:
                ok = _type_ok([r["ty"] for r in seq], typ[0])
                if ok == typ[1]:
                    continue
            seqs.append(seq)
        if seqs:
            out.append(seqs)
    return out


def _seq_perm(A, B):
    if len(A) != len(B):
        return False
    used = [False] * len(B)
    for a in A:
        for j, b in enumerate(B):
            if not used[j] and len(a) == len(b) and all(_definitely(x, y) for x, y in zip(a, b)):
                used[j] = True
                break
        else:
            return False
    return True


def ob_combos(layout, size, fname, ctx, jack_groups=False):
    """layout: list of group sizes; notes sit at concrete times 0,100,200.. (one group each), columns symbolic."""
    from reamber.algorithms.pattern import Pattern
    from reamber.algorithms.pattern.combos import PtnCombo
    from reamber.algorithms.pattern.filters import PtnFilterCombo, PtnFilterChord, PtnFilterType

    TY = _types()
    KEYS = 4
    cols, offs, types = [], [], []
    kinds = "hHT"
    k = 0
    for gi, gs in enumerate(layout):
        chosen = []
        for j in range(gs):
            c = ctx.int("c%d_%d" % (gi, j), 0, KEYS - 1)
            if not jack_groups:
                for prev in chosen:
                    ctx.assume(c != prev)
            chosen.append(c)
            cols.append(c)
            offs.append(100.0 * gi + j)  # distinct, increasing: the grouping below is by 50 ms windows
            types.append(TY[kinds[k % 3]])
            k += 1
    p = Pattern(cols=cols, offsets=offs, types=types)
    groups = p.group(v_window=50, h_window=None, avoid_jack=not jack_groups)
    ctx.check("groups.layout", [len(g) for g in groups] == list(layout), note="%s" % [len(g) for g in groups])
    G = [[_rec(r) for r in g] for g in groups]
    chord = combo = typ = None
    kw = {}
    F = FILTERS[fname]
    if "chord" in F:
        base, opt, exc = F["chord"]
        f = PtnFilterChord.create(base(size), keys=KEYS, options=opt, exclude=exc)
        chord = (set(_table(f)), exc)
        kw["chord_filter"] = f.filter
        _check_chord_table(ctx, base(size), opt, KEYS, chord[0])
    if "combo" in F:
        base, opt, exc = F["combo"]
        f = PtnFilterCombo.create(base(size), keys=KEYS, options=opt, exclude=exc)
        combo = (_table(f), exc)
        kw["combo_filter"] = f.filter
        _check_combo_table(ctx, base(size), opt, KEYS, set(combo[0]))
    if "type" in F:
        base, opt, exc = F["type"]
        f = PtnFilterType.create(base(size, TY), options=opt, exclude=exc)
        typ = ([tuple(r) for r in f.ar], exc)
        kw["type_filter"] = f.filter
        _check_type_table(ctx, base(size, TY), opt, typ[0])
    got = PtnCombo(groups).combinations(size=size, **kw)
    exp = _expected_combos(ctx, G, size, chord, combo, typ)
    got_seqs = [tuple(_rec(x) for x in row) for ar in got for row in ar]
    exp_seqs = [s for ch in exp for s in ch]
    ctx.check("combinations.none-missing-none-extra", _seq_perm(got_seqs, exp_seqs),
              note="reported %d sequences, expected %d" % (len(got_seqs), len(exp_seqs)))
    ctx.check("combinations.one-array-per-chunk", len(got) == len(exp), note="%d vs %d" % (len(got), len(exp)))
    ctx.check("combinations.shape", all(ar.shape[1] == size for ar in got))


def _check_chord_table(ctx, base, opt, keys, table):
    exp = set()
    rows = [tuple(r) for r in base]
    exp.update(rows)
    if opt & 4:  # AND_HIGHER
        lo = [min(r[i] for r in rows) for i in range(len(rows[0]))]
        exp.update(itertools.product(*[range(a, keys + 1) for a in lo]))
    if opt & 2:  # AND_LOWER
        cur = list(exp)
        hi = [max(r[i] for r in cur) for i in range(len(rows[0]))]
        exp.update(itertools.product(*[range(1, b + 1) for b in hi]))
    if opt & 1:  # ANY_ORDER
        exp = {p for r in exp for p in itertools.permutations(r)}
    ctx.check("chord-filter.table-follows-options", table == exp, note="extra %s missing %s" % (sorted(table - exp)[:4], sorted(exp - table)[:4]))


def _check_combo_table(ctx, base, opt, keys, table):
    rows = [tuple(r) for r in base]
    exp = set(rows)
    if opt & 1:  # REPEAT: every shift that stays inside [0, keys)
        exp = set()
        for r in rows:
            for d in range(-keys, keys + 1):
                s = tuple(x + d for x in r)
                if min(s) >= 0 and max(s) < keys:
                    exp.add(s)
    if opt & 2:  # HMIRROR
        exp |= {tuple(keys - 1 - x for x in r) for r in exp}
    if opt & 4:  # VMIRROR
        exp |= {tuple(reversed(r)) for r in exp}
    ctx.check("combo-filter.table-follows-options", table == exp, note="extra %s missing %s" % (sorted(table - exp)[:4], sorted(exp - table)[:4]))


def _check_type_table(ctx, base, opt, table):
    rows = [tuple(r) for r in base]
    exp = set(rows)
    if opt & 1:
        exp = {p for r in rows for p in itertools.permutations(r)}
    elif opt & 2:
        exp |= {tuple(reversed(r)) for r in rows}
    ctx.check("type-filter.table-follows-options", set(table) == exp and len(table) == len(exp), note="%d rows vs %d expected" % (len(table), len(exp)))


def _jack(n):
    return [[1] * n]


FILTERS = {
    "none": {},
    "chord[2,1]": dict(chord=(lambda n: [[2, 1, 1, 1][:n]], 0, False)),
    "chord[2,1]-any-order": dict(chord=(lambda n: [[2, 1, 1, 1][:n]], 1, False)),
    "chord[2,2]-and-lower": dict(chord=(lambda n: [[2, 2, 2, 2][:n]], 2, False)),
    "chord[1,2]-and-higher-excluded": dict(chord=(lambda n: [[1, 2, 1, 1][:n]], 4, True)),
    "chord[2,1]-lower-any": dict(chord=(lambda n: [[2, 1, 2, 1][:n]], 3, False)),
    "combo[0,1..]": dict(combo=(lambda n: [list(range(n))], 0, False)),
    "combo[1,0..]": dict(combo=(lambda n: [[1, 0, 1, 0][:n]], 0, False)),
    "combo[1,0..]-excluded": dict(combo=(lambda n: [[1, 0, 0, 2][:n]], 0, True)),
    "combo[0,1..]-repeat": dict(combo=(lambda n: [[0, 1, 0, 1][:n]], 1, False)),
    "combo[0,1..]-hmirror": dict(combo=(lambda n: [[0, 1, 0, 2][:n]], 2, False)),
    "combo[0,2..]-vmirror-repeat": dict(combo=(lambda n: [[0, 2, 1, 3][:n]], 5, False)),
    "combo-jack-repeat-excluded": dict(combo=(lambda n: [[0] * n], 1, True)),
    "type[tail,any]-any-order-excluded": dict(type=(lambda n, TY: [[TY["T"]] + [object] * (n - 1)], 1, True)),
    "type[hold,hit]-mirror": dict(type=(lambda n, TY: [[TY["H"], TY["h"], TY["h"], TY["h"]][:n]], 2, False)),
    "chord[[2,1],[1,1]]-two-bases": dict(chord=(lambda n: [[2, 1, 1, 1][:n], [1, 1, 2, 2][:n]], 0, False)),
    "chord[[2,1],[1,2]]-two-bases-higher": dict(chord=(lambda n: [[2, 1, 1, 1][:n], [1, 2, 1, 1][:n]], 4, False)),
    "combo[[0,1],[0,2]]-two-bases-repeat": dict(combo=(lambda n: [[0, 1, 0, 1][:n], [0, 2, 0, 2][:n]], 1, False)),
    "combo[[0,0],[1,3]]-two-bases-repeat-mirror-excluded": dict(combo=(lambda n: [[0, 0, 0, 0][:n], [1, 3, 1, 3][:n]], 3, True)),
    "type[[hit,hit],[hold,tail]]-two-bases-mirror": dict(type=(lambda n, TY: [[TY["h"]] * n, [TY["H"], TY["T"], TY["h"], TY["h"]][:n]], 2, False)),
    "type[hit,hold,tail]-any-order": dict(type=(lambda n, TY: [[TY["h"], TY["H"], TY["T"], TY["h"]][:n]], 1, False)),
    "type[hit,hold,tail]-any-order-excluded": dict(type=(lambda n, TY: [[TY["H"], TY["h"], TY["T"], TY["T"]][:n]], 1, True)),
    "type[a,a,b,b]-any-order": dict(type=(lambda n, TY: [[TY["h"], TY["h"], TY["H"], TY["H"]][:n]], 1, False)),
    "all-three": dict(chord=(lambda n: [[2, 1, 1, 1][:n]], 3, False), combo=(lambda n: [[0] * n], 1, True),
                      type=(lambda n, TY: [[TY["T"]] + [object] * (n - 1)], 1, True)),
}


def ob_templates(layout, which, ctx):
    """template_jacks / template_chord_stream = combinations() with the filters their docstrings name, folded to pairs."""
    from reamber.algorithms.pattern import Pattern
    from reamber.algorithms.pattern.combos import PtnCombo

    TY = _types()
    KEYS = 4
    cols, offs, types = [], [], []
    k = 0
    for gi, gs in enumerate(layout):
        chosen = []
        for j in range(gs):
            c = ctx.int("c%d_%d" % (gi, j), 0, KEYS - 1)
            for prev in chosen:
                ctx.assume(c != prev)
            chosen.append(c)
            cols.append(c)
            offs.append(100.0 * gi + j)
            types.append(TY["hHT"[k % 3]] if which[0] != "jack2h" else TY["h"])
            k += 1
    groups = Pattern(cols=cols, offsets=offs, types=types).group(v_window=50, h_window=None, avoid_jack=True)
    G = [[_rec(r) for r in g] for g in groups]
    pc = PtnCombo(groups)
    if which[0].startswith("jack"):
        n = which[1]
        got = pc.template_jacks(minimum_length=n, keys=KEYS)
        exp = []
        for i in range(len(G) - n + 1):
            for seq in itertools.product(*G[i:i + n]):
                if all(bool(ctx.eq(seq[0]["c"], r["c"])) for r in seq[1:]) and not any(r["ty"] is TY["T"] for r in seq):
                    exp.extend((seq[a], seq[a + 1]) for a in range(n - 1))
    else:
        _, prim, sec, lower, jack = which
        got = pc.template_chord_stream(primary=prim, secondary=sec, keys=KEYS, and_lower=lower, include_jack=jack)
        sizes_ok = {(prim, sec)}
        if lower:
            sizes_ok = {p for a in range(1, prim + 1) for b in range(1, sec + 1) for p in itertools.permutations((a, b))}
            sizes_ok |= {p for p in itertools.permutations((prim, sec))}
        exp = []
        for i in range(len(G) - 1):
            if (len(G[i]), len(G[i + 1])) not in sizes_ok:
                continue
            for a, b in itertools.product(G[i], G[i + 1]):
                if not jack and bool(ctx.eq(a["c"], b["c"])):
                    continue
                if a["ty"] is TY["T"] or b["ty"] is TY["T"]:
                    continue
                exp.append((a, b))
    got_pairs = [tuple(_rec(x) for x in row) for ar in got for row in ar]
    ctx.check("template.pairs-none-missing-none-extra", _seq_perm(got_pairs, exp), note="reported %d pairs, expected %d" % (len(got_pairs), len(exp)))


def obligations(tier, seed):
    quick = tier == "quick"
    obs = []
    B = "pattern of notes %s (h=hit H=hold T=tail), columns symbolic in [0,%d), times and window v>=0 symbolic, h_window=%s, avoid_jack=%s"
    shapes = ["h", "hh", "hH", "hhh", "hHT"] + ([] if quick else ["hhhh", "hHhT", "HTHT"])
    for kinds in shapes:
        for ncols in ((2,) if len(kinds) >= 3 else (1, 3)):
            for h in (None, 0, 1):
                for aj in (True, False):
                    if quick and len(kinds) == 3 and ((h == 0 and not aj) or (kinds == "hHT" and h == 1)):
                        continue
                    obs.append(Obligation("C20/group/%s/cols%d/h=%s/jack-avoid=%s" % (kinds, ncols, h, aj), partial(ob_group, kinds, ncols, h, aj),
                                          bound=B % (kinds, ncols, h, aj), max_paths=20000, timeout_s=600 if not quick else 240))
    for kinds in (("hh", "hhh") if quick else ("hh", "hhh", "hHh", "hhhh")):
        for (h, aj), again in (((None, False), (None, True, True)), ((None, True), (None, False, True)), ((1, False), (0, False, True)), ((None, True), (None, True, False))):
            obs.append(Obligation("C20/regroup/%s/h=%s,jack-avoid=%s/then-h=%s,jack-avoid=%s,%s" % (kinds, h, aj, again[0], again[1], "same-v" if again[2] else "other-v"),
                                  partial(ob_group, kinds, 2, h, aj, again=again),
                                  bound="one Pattern object (%d notes, 2 columns, symbolic times/columns/windows) grouped three times: settings A, settings B, settings A" % len(kinds),
                                  max_paths=6000, timeout_s=300))
    for kinds in (["hH", "HH", "hHh"] if quick else ["hH", "HH", "hHh", "HhH"]):
        for h, aj in ((None, True), (1, False)):
            obs.append(Obligation("C20/group-from-lists/%s/h=%s/jack-avoid=%s" % (kinds, h, aj), partial(ob_group, kinds, 2, h, aj, via_lists=True),
                                  bound="Pattern.from_note_lists(osu hits+holds %s, tails included), columns symbolic in [0,2), times/lengths/window symbolic" % kinds,
                                  max_paths=20000, timeout_s=600 if not quick else 240))
    layouts = {2: [(1, 1), (2, 1), (1, 2, 1), (2, 2)], 3: [(1, 1, 1), (2, 1, 1), (1, 2, 1, 1)], 4: [(1, 1, 1, 1), (2, 1, 1, 1, 1)]}
    for size, lays in layouts.items():
        for lay in (lays[:3] if quick else lays):
            for fname in FILTERS:
                if quick and size == 4 and fname not in ("none", "combo-jack-repeat-excluded", "all-three", "chord[2,1]-lower-any"):
                    continue
                if quick and size == 3 and sum(lay) > 4 and fname not in ("none", "all-three", "combo[0,1..]-repeat"):
                    continue
                obs.append(Obligation("C20/combos/size%d/%s/%s" % (size, "-".join(map(str, lay)), fname), partial(ob_combos, lay, size, fname),
                                      bound="groups of sizes %s (columns symbolic and distinct inside a group, 4 keys; types cycle hit/hold/tail), combination size %d, filter %s"
                                            % (lay, size, fname), max_paths=20000, timeout_s=600 if not quick else 240))
    for lay in [(2, 1), (1, 2, 1), (2, 2)]:
        for fname in ("none", "chord[2,1]", "chord[2,1]-any-order", "chord[2,2]-and-lower", "all-three"):
            obs.append(Obligation("C20/combos-jack-groups/size2/%s/%s" % ("-".join(map(str, lay)), fname), partial(ob_combos, lay, 2, fname, jack_groups=True),
                                  bound="groups of sizes %s formed with avoid_jack=False (columns symbolic, may repeat inside a group), combination size 2, filter %s" % (lay, fname),
                                  max_paths=20000, timeout_s=600 if not quick else 240))
    for lay in ([(1, 1, 1), (2, 1)] if quick else [(1, 1, 1), (2, 1), (1, 2, 1), (2, 2)]):
        for which in [("jack", 2), ("jack", 3), ("stream", 2, 1, False, False), ("stream", 2, 1, True, False), ("stream", 2, 2, True, True)]:
            if which[0] == "jack" and which[1] > len(lay):
                continue
            obs.append(Obligation("C20/template/%s/%s" % ("-".join(map(str, lay)), "-".join(map(str, which))), partial(ob_templates, lay, which),
                                  bound="template %s on groups of sizes %s, columns symbolic" % (which, lay), max_paths=20000, timeout_s=600 if not quick else 240))
    return obs
