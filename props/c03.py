"""C03 - StepMania writing produces a file that denotes the in-memory mapset."""
from __future__ import annotations

import itertools
from fractions import Fraction as F
from functools import partial

from symx.run import Obligation
from symx.core import SymNum, isna
from oracles import sm as ref
from .common import classes, col, cell_same, same_multiset, MapSnap
from . import c02

KINDS = [("hit", "hits", "Hit"), ("hold", "holds", "Hold"), ("roll", "rolls", "Roll"), ("mine", "mines", "Mine"), ("lift", "lifts", "Lift"),
         ("fake", "fakes", "Fake"), ("keysound", "keysounds", "KeySound")]


class Grid:
    """positions in beats -> symbolic milliseconds for a tempo list given as [(beat, L)] (beat lengths symbolic)."""

    def __init__(self, ctx, beats):
        self.off = ctx.real("off")
        self.beats = [F(b) for b in beats]
        self.Ls = []
        for i in range(len(beats)):
            L = ctx.real("L%d" % i)
            ctx.assume(L > 0)
            self.Ls.append(L)
        self.starts = [self.off]
        for i in range(1, len(beats)):
            self.starts.append(self.starts[-1] + (self.beats[i] - self.beats[i - 1]) * self.Ls[i - 1])

    def t(self, p):
        p = F(p)
        j = max(i for i, b in enumerate(self.beats) if b <= p)
        return self.starts[j] + (p - self.beats[j]) * self.Ls[j]

    def L_at(self, p):
        p = F(p)
        j = max(i for i, b in enumerate(self.beats) if b <= p)
        return self.Ls[j]


def mapset(ctx, grid, charts, selectable=True, title="Song", bpm_order=None):
    """charts: list of (keys, objects) with objects = [(kind, col, beat[, end_beat])]."""
    C = classes("sm")
    sms = C["MapSet"]()
    maps = []
    for ci, (keys, objs) in enumerate(charts):
        m = C["Map"]()
        m.chart_type = c02.TYPES[keys]
        m.description, m.difficulty, m.difficulty_val = "d%d" % ci, "Hard", 7 + ci
        m.groove_radar = [0.1, 0.2, 0.3, 0.4, 0.5]
        for kind, attr, cls in KINDS:
            items = []
            for o in objs:
                if o[0] != kind:
                    continue
                if kind in ("hold", "roll"):
                    items.append(C[cls](grid.t(o[2]), o[1], grid.t(o[3]) - grid.t(o[2])))
                else:
                    items.append(C[cls](grid.t(o[2]), o[1]))
            setattr(m, attr, C[cls + "List"](items))
        rows = [C["Bpm"](grid.starts[i], 60000 / grid.Ls[i]) for i in range(len(grid.beats))]
        m.bpms = C["BpmList"]([rows[i] for i in bpm_order] if bpm_order else rows)
        maps.append(m)
    sms.maps = maps
    sms.title, sms.subtitle, sms.artist, sms.title_translit, sms.artist_translit = title, "sub", "art", "tt", "at"
    sms.genre, sms.credit, sms.banner, sms.background, sms.music, sms.display_bpm = "g", "cr", "bn.png", "bg.png", "s.ogg", "150"
    sms.offset = grid.off
    sms.sample_start, sms.sample_length = ctx.real("sstart"), ctx.real("slen")
    sms.selectable = selectable
    return sms


def lib_rows(m):
    out = {}
    for kind, attr, _c in KINDS:
        df = m.objs[attr].df
        if kind in ("hold", "roll"):
            out[kind] = list(zip(col(df, "column"), col(df, "offset"), col(df, "length")))
        else:
            out[kind] = list(zip(col(df, "column"), col(df, "offset")))
    return out


def ref_rows(ctx, d, chart):
    out = {k: [] for k, _a, _c in KINDS}
    for o in chart["objects"]:
        t = ref.ms_of(ctx, d, o["beat"])
        L = ref.beat_length_at(ctx, d, o["beat"])
        if "end" in o:
            out[o["kind"]].append((o["col"], t, ref.ms_of(ctx, d, o["end"]) - t, L, ref.beat_length_at(ctx, d, o["end"])))
        else:
            out[o["kind"]].append((o["col"], t, L))
    return out


def _eq(ctx, exact, slack, extra=0):
    """slack: the file offset passes through the double constants 1/1000.0 and 1000.0, i.e. carries a relative error of
    ~2e-17; times are therefore compared up to 1e-9 * |offset| (DESIGN appendix A) plus, when tempo changes lie off the
    measure lines, 1/96 beat at the local tempo."""
    def eq(a, b):  # a: library row, b: reference row (with local beat lengths appended)
        if a[0] != b[0]:
            return False
        if len(a) == 2:
            return ctx.within(a[1], b[1], slack + extra + (0 if exact else b[2] / 96), strict=False)
        return ctx.all(ctx.within(a[1], b[1], slack + extra + (0 if exact else b[3] / 96), strict=False),
                       ctx.within(a[1] + a[2], b[1] + b[2], slack + extra + (0 if exact else b[4] / 96), strict=False))

    return eq


def check_written(ctx, label, sms, text, exact):
    """exact: every tempo change on a measure line and every measure representable with <= 384 rows"""
    d = ref.parse(ctx, text)
    slack = ctx.abs(sms.offset) / 10**9
    ctx.check(label + ".chart-count", len(d["charts"]) == len(sms.maps), note="%d vs %d" % (len(d["charts"]), len(sms.maps)))
    for i, (m, ch) in enumerate(zip(sms.maps, d["charts"])):
        lab = "%s.chart%d" % (label, i)
        ctx.check(lab + ".syntax", not ch["ill_formed"], note="; ".join(ch["ill_formed"][:3]))
        ctx.check(lab + ".rows-per-measure", all(len(r) % 4 == 0 and 0 < len(r) <= 384 for r in ch["measures"]), note="%s" % [len(r) for r in ch["measures"]])
        ctx.check(lab + ".header", (m.chart_type, m.description, m.difficulty, str(m.difficulty_val)) == (ch["type"], ch["description"], ch["difficulty"], str(ch["meter"])),
                  note="%r" % ((ch["type"], ch["description"], ch["difficulty"], ch["meter"]),))
        ctx.check(lab + ".radar", [float(x) for x in m.groove_radar] == [float(x) for x in ch["radar"]])
        A, B = lib_rows(m), ref_rows(ctx, d, ch)
        for kind, _a, _c in KINDS:
            ctx.check("%s.%s.count" % (lab, kind), len(A[kind]) == len(B[kind]), note="in memory %d, file %d" % (len(A[kind]), len(B[kind])))
            ctx.check("%s.%s.same-columns-and-times" % (lab, kind), same_multiset(ctx, A[kind], B[kind], eq=_eq(ctx, exact, slack)), note="%d objects" % len(A[kind]))
            if not exact:  # residual: allowing for the two decimals the writer gives a tempo change's beat (0.005 beat of the summed beat lengths)
                bl = sum(60000 / x for _b, x in d["bpms"]) / 200
                ctx.check("%s.%s.same-columns-and-times-up-to-2-decimal-beats" % (lab, kind), same_multiset(ctx, A[kind], B[kind], eq=_eq(ctx, exact, slack, bl)))
    # tempo timeline of the file = tempo list of the (first) chart
    m0 = sms.maps[0]
    mem = list(zip(col(m0.bpms.df, "offset"), col(m0.bpms.df, "bpm")))
    fil = [(ref.ms_of(ctx, d, b), x) for b, x in d["bpms"]]
    ctx.check(label + ".tempo.count", len(mem) == len(fil), note="%d vs %d" % (len(mem), len(fil)))
    if exact:
        ctx.check(label + ".tempo.same-timeline", same_multiset(ctx, mem, fil, eq=lambda a, b: ctx.all(ctx.within(a[0], b[0], slack, strict=False), ctx.eq(a[1], b[1]))),
                  note="%r vs %r" % (mem[:3], fil[:3]))
    else:
        ctx.check(label + ".tempo.same-bpm-values", same_multiset(ctx, [(x,) for _t, x in mem], [(x,) for _t, x in fil]))
    c02.check_header(ctx, label, sms, d, None)
    return d


def ob_write(beats, charts, ctx, selectable=True, rate=False, over=False, bpm_order=None):
    from reamber.sm import SMMapSet

    grid = Grid(ctx, beats)
    sms = mapset(ctx, grid, charts, selectable=selectable, bpm_order=bpm_order)
    if rate:
        r = ctx.real("r")
        ctx.assume(r > 0)
        if rate == "after-a-first-write":  # whatever a write leaves behind on the lists must not outlive a later change of the chart
            sms.write()
        sms = sms.rate(r)
    snaps = [MapSnap(m) for m in sms.maps]
    text = sms.write()
    for i, (s, m) in enumerate(zip(snaps, sms.maps)):
        s.same(ctx, m, "source.chart%d" % i)
    exact = all(F(b) % 4 == 0 for b in beats) and not over
    check_written(ctx, "written", sms, text, exact)
    # reading the written text back gives the same result again: the mapset read from the text, written and read once more,
    # denotes the same objects (a read reseats off-measure tempo changes, which may re-number measures: texts need not be equal)
    back = SMMapSet.read(text)
    text2 = back.write()
    d1, d2 = ref.parse(ctx, text), ref.parse(ctx, text2)
    slack = ctx.abs(sms.offset) / 10**9
    for i, (c1, c2) in enumerate(zip(d1["charts"], d2["charts"])):
        A, B = ref_rows(ctx, d1, c1), ref_rows(ctx, d2, c2)
        for kind, _a, _c in KINDS:
            ctx.check("rewrite.chart%d.%s.same-objects" % (i, kind), same_multiset(ctx, [r[:3] if kind in ("hold", "roll") else r[:2] for r in A[kind]], B[kind], eq=_eq(ctx, exact, slack)),
                      note="%r vs %r" % (A[kind][:2], B[kind][:2]))
    ctx.check("rewrite.chart-count", len(d1["charts"]) == len(d2["charts"]))
    text3 = SMMapSet.read(text2).write()
    d3 = ref.parse(ctx, text3)
    ctx.check("rewrite.third-generation.same-rows", [c["measures"] for c in d2["charts"]] == [c["measures"] for c in d3["charts"]])
    ctx.check("rewrite.third-generation.same-tempo", ctx.all(ctx.close(d2["offset_ms"], d3["offset_ms"]), len(d2["bpms"]) == len(d3["bpms"]),
                                                            *[ctx.all(ctx.eq(a[0], b[0]), ctx.eq(a[1], b[1])) for a, b in zip(d2["bpms"], d3["bpms"])]))
    for tag in ("#TITLE", "#ARTIST", "#CREDIT", "#MUSIC", "#SELECTABLE", "#SUBTITLE", "#BACKGROUND"):
        ctx.check("rewrite.header[%s]" % tag, d1["header"].get(tag) == d2["header"].get(tag), note="%r vs %r" % (d1["header"].get(tag), d2["header"].get(tag)))


def ob_read_write(charts, bpm_set, ctx, selectable="YES"):
    """mapsets obtained by read"""
    from reamber.sm import SMMapSet

    text, vars_ = c02.build(ctx, charts, bpm_set, selectable=selectable)
    sms = SMMapSet.read(text)
    out = sms.write()
    exact = all(F(b) % 4 == 0 for b in map(float, c02.BPM_SETS[bpm_set]))
    check_written(ctx, "written", sms, out, exact and bpm_set in c02.EXACT_SETS)
    d0, d1 = ref.parse(ctx, text), ref.parse(ctx, out)
    ctx.check("roundtrip.same-rows", [[o["kind"], o["col"], o["beat"], o.get("end")] for c in d0["charts"] for o in c["objects"]]
              == [[o["kind"], o["col"], o["beat"], o.get("end")] for c in d1["charts"] for o in c["objects"]] if exact else True)
    for tag in ("#TITLE", "#ARTIST", "#CREDIT", "#MUSIC", "#SELECTABLE", "#SUBTITLE", "#BACKGROUND", "#BANNER", "#GENRE", "#DISPLAYBPM"):
        ctx.check("roundtrip.header[%s]" % tag, d0["header"].get(tag) == d1["header"].get(tag), note="%r vs %r" % (d0["header"].get(tag), d1["header"].get(tag)))


def ob_converted(cname, beats, ctx):
    """mapsets obtained by conversion from another game's chart whose objects sit on the grid"""
    import reamber.algorithms.convert as CV
    from .common import build_map
    from .c08 import CONVERTERS

    sg, _tg = CONVERTERS[cname]
    grid = Grid(ctx, beats)
    hits = [(grid.t(0), 0), (grid.t(F(5, 2)), 3), (grid.t(9), 1)]
    holds = [(grid.t(1), 2, grid.t(F(7, 2)) - grid.t(1)), (grid.t(6), 0, grid.t(10) - grid.t(6))]
    bpms = [(grid.starts[i], 60000 / grid.Ls[i]) for i in range(len(grid.beats))]
    if sg == "bms":
        hits = [h + (dict(sample=b"a.wav"),) for h in hits]
    if sg == "o2j":
        C = classes("o2j")
        src = C["MapSet"]()
        src.maps = [build_map("o2j", hits, holds, bpms)]
        src.title, src.artist, src.creator, src.level = "T", "A", "C", [1, 2, 3]
    else:
        src = build_map(sg, hits, holds, bpms, ())
        if sg == "osu":
            src.circle_size, src.title, src.artist, src.creator, src.version = 4, "T", "A", "C", "V"
        elif sg == "qua":
            src.mode, src.title, src.artist, src.creator, src.difficulty_name = "Keys4", "T", "A", "C", "V"
        else:
            src.title, src.artist, src.version = b"T", b"A", b"V"
    out = getattr(CV, cname).convert(src)
    sms = out[0] if isinstance(out, list) else out
    sms.offset = grid.off  # the documented step after conversion: #OFFSET equals the first tempo point
    text = sms.write()
    exact = all(F(b) % 4 == 0 for b in beats)
    check_written(ctx, "converted-written", sms, text, exact)


# ---------------------------------------------------------------------------------------------
def objs_basic(k):
    return [("hit", 0, 0), ("hit", k - 1, F(1, 2)), ("hold", 1 % k, 1, F(5, 2)), ("hit", 0, 4), ("mine", k - 1, F(17, 4)), ("roll", 0, 5, F(13, 2)), ("lift", 1 % k, 7),
            ("fake", k - 1, F(22, 3)), ("keysound", 0, F(31, 4))]


def objs_unequal(k):  # more holds than rolls, and kinds that follow them in the writer's tables
    return [("hold", 0, 0, 1), ("hold", k - 1, F(1, 2), F(3, 2)), ("roll", 1 % k, 2, 3), ("mine", 0, F(5, 2)), ("fake", k - 1, 3), ("hit", 0, F(7, 2)), ("lift", 1 % k, 5), ("keysound", 0, 6)]


def objs_no_rolls(k):
    return [("hold", 0, 0, 1), ("hold", k - 1, F(1, 2), F(3, 2)), ("hold", 1 % k, 2, 3), ("mine", 0, F(5, 2)), ("hit", k - 1, 3), ("fake", 0, F(7, 2))]


def objs_late(k):  # empty leading measures
    return [("hit", 0, 9), ("hold", k - 1, F(19, 2), 12), ("hit", 1 % k, F(49, 4))]


def objs_fine(k):  # thirds, 1/48 and eighths in one measure (192 rows), sevenths in the next (28 rows)
    return [("hit", 0, F(1, 3)), ("hit", k - 1, F(1, 48)), ("hit", 1 % k, F(5, 8)), ("hit", 0, F(4) + F(1, 7)), ("hit", k - 1, F(4) + F(3, 7)), ("hold", 1 % k, F(4) + F(5, 7), F(9))]


def objs_over(k):  # a measure whose exact row count (lcm of 7ths, 9ths and 64ths) exceeds the 384-row cap
    return [("hit", 0, F(1, 2)), ("hit", 0, F(4) + F(1, 7)), ("hit", k - 1, F(4) + F(1, 9)), ("hit", 1 % k, F(4) + F(3, 64))]


def obligations(tier, seed):
    quick = tier == "quick"
    obs = []
    tempo_sets = {"one": [0], "line": [0, 4], "two-lines": [0, 4, 12], "mid": [0, F(5, 2)], "mid+line": [0, F(5, 2), 8], "third": [0, F(4, 3)]}
    for keys in (4, 6, 3, 7, 8):
        for oname, of in (("basic", objs_basic), ("late", objs_late), ("fine", objs_fine)):
            for tname, beats in tempo_sets.items():
                if quick and not (keys == 4 or (keys == 6 and tname in ("one", "mid")) or (oname == "basic" and tname == "line")):
                    continue
                if oname == "fine" and tname not in ("one", "line"):
                    continue
                obs.append(Obligation("C03/write/K%d/%s/tempo=%s" % (keys, oname, tname), partial(ob_write, beats, [(keys, of(keys))]),
                                      bound="mapset built from items: %d keys, objects %s at grid positions, tempo changes at beats %s, symbolic beat lengths/offset/sample window"
                                            % (keys, oname, beats), max_paths=500, timeout_s=200))
    for keys in ((4,) if quick else (4, 7)):
        for oname, of in (("unequal-kind-counts", objs_unequal), ("holds-without-rolls", objs_no_rolls)):
            for tname in ("one", "mid"):
                obs.append(Obligation("C03/write/K%d/%s/tempo=%s" % (keys, oname, tname), partial(ob_write, tempo_sets[tname], [(keys, of(keys))]),
                                      bound="mapset built from items: %d keys, objects %s, tempo changes at beats %s" % (keys, oname, tempo_sets[tname]), max_paths=500, timeout_s=200))
    for keys in (4, 7):
        obs.append(Obligation("C03/write/K%d/over-384-rows/tempo=one" % keys, partial(ob_write, [0], [(keys, objs_over(keys))], over=True),
                              bound="%d keys, a measure mixing 7ths, 9ths and 64ths of a beat (needs more than 384 rows): compared within 1/96 beat" % keys))
    obs.append(Obligation("C03/write/two-charts", partial(ob_write, [0, 4], [(4, objs_basic(4)), (6, objs_late(6))]), bound="two charts (4 and 6 keys) sharing one tempo list"))
    for order, tn in (((1, 0), "line"), ((2, 0, 1), "two-lines"), ((1, 0), "mid")):
        obs.append(Obligation("C03/write/tempo-rows=%s/tempo=%s" % ("".join(map(str, order)), tn), partial(ob_write, tempo_sets[tn], [(4, objs_basic(4))], bpm_order=order),
                              bound="tempo list rows stored in order %s (unsorted list); tempo %s" % (order, tn)))
    obs.append(Obligation("C03/write/selectable-false", partial(ob_write, [0], [(4, objs_basic(4))], selectable=False), bound="selectable=False"))
    for tname in ("one", "line", "mid"):
        obs.append(Obligation("C03/write/rated/tempo=%s" % tname, partial(ob_write, tempo_sets[tname], [(4, objs_basic(4))], rate=True), bound="mapset after rate(r), r>0 symbolic; tempo %s" % tname))
        obs.append(Obligation("C03/write/written-then-rated/tempo=%s" % tname, partial(ob_write, tempo_sets[tname], [(4, objs_basic(4))], rate="after-a-first-write"),
                              bound="mapset written once, then rate(r) (r>0 symbolic), then written; tempo %s" % tname))
    for keys, pn in ((4, "taps"), (4, "hold-across-measures"), (6, "mixed-symbols"), (4, "48-rows"), (8, "roll+hold"), (4, "empty-first-measure")):
        for bs in (("one", "mid-measure") if quick else ("one", "measure-line", "mid-measure", "mid+line", "third")):
            obs.append(Obligation("C03/read-write/K%d/%s/bpms=%s" % (keys, pn, bs), partial(ob_read_write, [(keys, pn, "desc", "Hard", 9)], bs),
                                  bound="mapset obtained by SMMapSet.read of a C02 skeleton (%d keys, %s, #BPMS %s), then written" % (keys, pn, c02.BPM_SETS[bs])))
    obs.append(Obligation("C03/read-write/selectable-no", partial(ob_read_write, [(4, "taps", "d", "Hard", 9)], "one", selectable="NO"), bound="read of a file with #SELECTABLE:NO, then written"))
    for cname in ("OsuToSM", "QuaToSM", "BMSToSM", "O2JToSM"):
        for tname in (("one", "line") if quick else ("one", "line", "mid", "two-lines")):
            obs.append(Obligation("C03/converted/%s/tempo=%s" % (cname, tname), partial(ob_converted, cname, tempo_sets[tname]),
                                  bound="mapset obtained by %s from a chart on the grid, offset set to the first tempo point, then written" % cname))
    return obs
