"""C17 - Full-LN generation keeps every note and fills gaps by the stated rule."""
from __future__ import annotations

import itertools
from functools import partial

from symx.run import Obligation
from symx.core import isna
from .common import GAMES, SV_GAMES, classes, build_map, MapSnap, cell_same, col


def _notes_of(m):
    out = []
    for t, c in zip(col(m.hits.df, "offset"), col(m.hits.df, "column")):
        out.append(dict(t=t, c=c, kind="hit", len=None))
    for t, c, l in zip(col(m.holds.df, "offset"), col(m.holds.df, "column"), col(m.holds.df, "length")):
        out.append(dict(t=t, c=c, kind="hold", len=l))
    return out


def _expected(ctx, notes, order, gap, thr):
    """The rule of the property applied with the notes of each column processed in ``order`` (a permutation of the
    note indices that must be non-decreasing in time inside every column; returns None when it is not)."""
    exp = []
    seq = [notes[i] for i in order]
    for i, a in enumerate(seq):
        nxt = None
        for b in seq[i + 1:]:
            if b["c"] == a["c"]:  # forks on symbolic columns
                nxt = b
                break
        if nxt is None:
            exp.append(dict(a))
            continue
        if nxt["t"] < a["t"]:
            return None
        inv = nxt["t"] - a["t"] - gap
        if inv >= thr:
            exp.append(dict(t=a["t"], c=a["c"], kind="hold", len=inv))
        else:
            exp.append(dict(t=a["t"], c=a["c"], kind="hit", len=None))
    return exp


def _same_note(ctx, a, b):
    if a["kind"] != b["kind"]:
        return False
    conds = [ctx.eq(a["t"], b["t"]), ctx.eq(a["c"], b["c"])]
    if a["kind"] == "hold":
        conds.append(ctx.eq(a["len"], b["len"]))
    return ctx.all(*conds)


def _same_multiset(ctx, got, exp):
    if len(got) != len(exp):
        return False
    gk = sorted(range(len(got)), key=lambda i: got[i]["kind"])
    alts = []
    for perm in itertools.permutations(range(len(exp))):
        if all(got[g]["kind"] == exp[p]["kind"] for g, p in zip(range(len(got)), perm)):
            alts.append(ctx.all(*[_same_note(ctx, got[g], exp[p]) for g, p in zip(range(len(got)), perm)]))
    return ctx.any(*alts) if alts else False


def ob_full_ln(game, kinds, ncols, ctx, defaults=False):
    n = len(kinds)
    t = ctx.reals("t", n)
    cs = [ctx.int("c%d" % i, 0, ncols - 1) if ncols > 1 else 0 for i in range(n)]
    hits, holds = [], []
    for i, k in enumerate(kinds):
        if k == "h":
            hits.append((t[i], cs[i]))
        else:
            ln = ctx.real("len%d" % i)
            ctx.assume(ln >= 0)
            holds.append((t[i], cs[i], ln))
    b = ctx.real("bpm")
    ctx.assume(b > 0)
    svs = [(ctx.real("svt"), ctx.real("mult"))] if game in SV_GAMES else ()
    m = build_map(game, hits, holds, [(ctx.real("bt"), b)], svs)
    snap = MapSnap(m)
    from reamber.algorithms.generate import full_ln

    if defaults:
        gap, thr = 150, 100
        out = full_ln(m)
    else:
        gap, thr = ctx.real("gap"), ctx.real("thr")
        ctx.assume(gap >= 0)
        ctx.assume(thr >= 0)
        out = full_ln(m, gap=gap, ln_as_hit_thres=thr)
    notes = _notes_of(m)
    got = _notes_of(out)
    ctx.check("result.is-new-object", out is not m)
    ctx.check("result.type", type(out) is type(m))
    ctx.check("result.list-types", type(out.hits) is type(m.hits) and type(out.holds) is type(m.holds))
    ctx.check("note-count-conserved", len(got) == len(notes), note="%d notes -> %d" % (len(notes), len(got)))
    # candidate processing orders: every permutation that is non-decreasing in time per column (ties: either order)
    alts = []
    for order in itertools.permutations(range(n)):
        exp = _expected(ctx, notes, order, gap, thr)
        if exp is not None:
            alts.append(_same_multiset(ctx, got, exp))
    ctx.check("notes-follow-the-rule", ctx.any(*alts) if alts else False,
              note="result %s" % [(x["kind"], ctx.value(x["t"]), ctx.value(x["c"]), ctx.value(x["len"])) for x in got])
    # no generated hold reaches the next note of its column
    ok = []
    for h in got:
        if h["kind"] != "hold":
            continue
        for o in got:
            if o is not h:
                later = ctx.all(ctx.eq(o["c"], h["c"]), ctx.clearly_gt(o["t"], h["t"]))
                ok.append(ctx.any(ctx.neg(later), ctx.le(h["t"] + h["len"], o["t"])))
    # (the last note of a column keeps its own length, which the property exempts: it has no later note)
    ctx.check("no-hold-reaches-the-next-note", ctx.all(*ok) if ok else True)
    for i, x in enumerate(got):
        ctx.observe("out%d.t" % i, x["t"])
        if x["kind"] == "hold":
            ctx.observe("out%d.len" % i, x["len"])
    # every field of the rebuilt lists is filled (declared defaults, no missing values)
    for k in ("hits", "holds"):
        df = out.objs[k].df
        names = set(type(out.objs[k])._item_class()._props)
        ctx.check("result.%s.columns" % k, set(df.columns) == names, note="%s" % list(df.columns))
        bad = [c for c in df.columns if any(isna(v) for v in col(df, c))]
        ctx.check("result.%s.no-missing-values" % k, not bad, note="%s" % bad)
    # tempo and other lists unchanged; the input untouched
    for k, s in snap.lists.items():
        if k in ("hits", "holds"):
            continue
        tl = getattr(out, k[1:]) if k.startswith("@") else out.objs[k]
        s.same(ctx, tl.df, "result.%s" % k.lstrip("@"), dtypes=False, index=False)
    snap.same(ctx, m, "source")


def obligations(tier, seed):
    quick = tier == "quick"
    obs = []
    B = "%s chart, notes %s (h=hit, H=hold), columns symbolic in [0,%d), times, hold lengths, gap>=0 and threshold>=0 symbolic"
    shapes2 = ["".join(p) for p in itertools.product("hH", repeat=2)]
    shapes3 = ["".join(p) for p in itertools.product("hH", repeat=3)]
    for g in GAMES:
        for kinds in ["h", "H"] + shapes2:
            obs.append(Obligation("C17/%s/%s/cols2" % (g, kinds), partial(ob_full_ln, g, kinds, 2), bound=B % (g, kinds, 2), max_paths=4000, timeout_s=200))
        obs.append(Obligation("C17/%s/empty" % g, partial(ob_full_ln, g, "", 1), bound="%s chart without notes" % g))
        obs.append(Obligation("C17/%s/hH/defaults" % g, partial(ob_full_ln, g, "hH", 1, defaults=True), bound="%s, default gap=150 and threshold=100, one column" % g))
    for g in (["osu", "bms"] if quick else GAMES):
        for kinds in (["hhh", "hHh", "HHH", "Hhh"] if quick else shapes3):
            obs.append(Obligation("C17/%s/%s/cols1" % (g, kinds), partial(ob_full_ln, g, kinds, 1), bound=B % (g, kinds, 1), max_paths=6000, timeout_s=300))
    if not quick:
        for g in ("osu", "sm", "o2j"):
            for kinds in shapes3:
                obs.append(Obligation("C17/%s/%s/cols2" % (g, kinds), partial(ob_full_ln, g, kinds, 2), bound=B % (g, kinds, 2), max_paths=20000, timeout_s=900))
            for kinds in ("hhhh", "hHhH", "HHhh"):
                obs.append(Obligation("C17/%s/%s/cols1" % (g, kinds), partial(ob_full_ln, g, kinds, 1), bound=B % (g, kinds, 1), max_paths=30000, timeout_s=1200))
    return obs
