"""C13, file part: write(rate(m)) read back gives the rated timeline (filled in once the reference
readers of C01/C03/C05/C06 exist)."""


def obligations(tier, seed):
    return []
