"""C13, file part: writing the rated chart and interpreting the file gives the rated timeline."""
from __future__ import annotations

from fractions import Fraction as F
from functools import partial

from symx.run import Obligation
from .common import same_multiset, cell_same
from .c09 import Spec
from .memcharts import mem_chart, written, WRITABLE


def ob_rated_file(game, keys, variant, rconc, ctx):
    sp = Spec(ctx, keys, variant, zero_start=game == "bms")
    m = mem_chart(ctx, sp, game)
    if rconc is None:
        r = ctx.real("r")
        ctx.assume(r > 0)
    else:
        r = F(rconc)
    out = m.rate(r)
    w = written(ctx, game, out)
    ctx.check("rated-file.well-formed", not w["ill"], note="%r" % (w["ill"][:2],))
    if w["kind"] == "ms":
        for bound, tag in ((1, "within-1ms"), (F(1001, 1000), "within-1.001ms")):
            eq = lambda a, b, bound=bound: ctx.all(a[0] == b[0], *[ctx.within(x * r, y, bound * r) for x, y in zip(a[1:], b[1:])])
            ctx.check("rated-file.hits.times-divided-by-r-" + tag, same_multiset(ctx, w["hits"], [(c, sp.t(p)) for c, p in sp.hits], eq=eq))
            ctx.check("rated-file.holds.times-divided-by-r-" + tag, same_multiset(ctx, w["holds"], [(c, sp.t(p), sp.t(e)) for c, p, e in sp.holds], eq=eq))
        teq = lambda a, b: ctx.all(ctx.within(a[0] * r, b[0], r), ctx.eq(a[1], b[1] * r))
        ctx.check("rated-file.tempo.time-divided-bpm-multiplied", same_multiset(ctx, w["tempo"], [(sp.t(sp.tb[i]), sp.bpm(i)) for i in range(2)], eq=teq))
        if game == "osu":
            seq = lambda a, b: ctx.all(ctx.within(a[0] * r, b[0], r), a[1] == b[1])
            ctx.check("rated-file.sample-events.times-divided-by-r", same_multiset(ctx, w["samples"], [(sp.t(F(3)), "e.wav"), (sp.t(F(1)), "f.wav")], eq=seq))
            ctx.check("rated-file.preview-point-divided-by-r", ctx.within(w["extra"]["preview"] * r, 1234, r))
    else:
        ctx.check("rated-file.hits.same-beats", sorted(w["hits"]) == sorted(sp.hits), note="%r" % (w["hits"][:3],))
        ctx.check("rated-file.holds.same-beats", sorted(w["holds"]) == sorted(sp.holds))
        ctx.check("rated-file.tempo.same-beats", [b for b, _v in w["tempo"]] == sp.tb, note="%r" % ([b for b, _v in w["tempo"]],))
        tol = F(5001, 10**7) if game == "bms" else 0
        ctx.check("rated-file.tempo.bpm-multiplied", ctx.all(*[ctx.within(v, sp.bpm(i) * r, tol, strict=False) for i, (_b, v) in enumerate(w["tempo"])]) if len(w["tempo"]) == 2 else False)
        if game == "sm":
            ctx.check("rated-file.offset-divided-by-r", ctx.close(w["offset_ms"] * r, sp.T0) if not isinstance(sp.T0, int) else ctx.eq(w["offset_ms"], 0))
            ctx.check("rated-file.sample-window-divided-by-r", ctx.all(ctx.close(w["extra"]["sample_start"] * 1000 * r, 1500), ctx.close(w["extra"]["sample_length"] * 1000 * r, 10000)))


def obligations(tier, seed):
    quick = tier == "quick"
    obs = []
    for g in WRITABLE:
        for keys, variant in ((4, "a"), (7, "b")) if quick else ((4, "a"), (4, "b"), (7, "a"), (7, "c")):
            rs = [None] if g in ("sm", "bms") else ["1/2", "3/2", "11/10"]
            for rc in rs:
                obs.append(Obligation("C13/file/%s/K%d/%s/r=%s" % (g, keys, variant, rc or "sym"), partial(ob_rated_file, g, keys, variant, rc),
                                      bound="%s chart (%d keys, variant %s) on the beat grid with symbolic beat lengths and start time, rate %s, written and interpreted by the reference reader"
                                            % (g, keys, variant, "symbolic r>0" if rc is None else rc), max_paths=3000, timeout_s=300))
    return obs
