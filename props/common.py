"""Shared harness helpers: chart builders for the five games, list-class reflection, snapshots."""
from __future__ import annotations

import dataclasses
import importlib
import math
from fractions import Fraction as F

import numpy as np
import pandas as pd

from symx.core import SymNum, isna

GAMES = ["osu", "qua", "sm", "bms", "o2j"]
SV_GAMES = ["osu", "qua"]


def mod(name):
    return importlib.import_module(name)


def classes(game):
    """Item/list/map classes of a game (looked up lazily: reamber must be imported after the hook)."""
    if game == "osu":
        from reamber.osu import OsuMap, OsuHit, OsuHold, OsuBpm, OsuSv
        from reamber.osu.OsuSample import OsuSample
        from reamber.osu.lists import OsuBpmList, OsuSvList, OsuSampleList
        from reamber.osu.lists.notes import OsuHitList, OsuHoldList

        return dict(Map=OsuMap, Hit=OsuHit, Hold=OsuHold, Bpm=OsuBpm, Sv=OsuSv, HitList=OsuHitList, HoldList=OsuHoldList,
                    BpmList=OsuBpmList, SvList=OsuSvList, Sample=OsuSample, SampleList=OsuSampleList)
    if game == "qua":
        from reamber.quaver import QuaMap, QuaHit, QuaHold, QuaBpm, QuaSv
        from reamber.quaver.lists import QuaBpmList, QuaSvList
        from reamber.quaver.lists.notes import QuaHitList, QuaHoldList

        return dict(Map=QuaMap, Hit=lambda o, c, **k: QuaHit(o, c, k.pop("keysounds", []), **k),
                    Hold=lambda o, c, l, **k: QuaHold(o, c, l, k.pop("keysounds", []), **k), Bpm=QuaBpm, Sv=QuaSv,
                    HitList=QuaHitList, HoldList=QuaHoldList, BpmList=QuaBpmList, SvList=QuaSvList)
    if game == "sm":
        from reamber.sm import SMMap, SMMapSet, SMHit, SMHold, SMBpm, SMRoll, SMMine, SMLift, SMFake, SMKeySound, SMStop
        from reamber.sm.lists import SMBpmList, SMStopList
        from reamber.sm.lists.notes import SMHitList, SMHoldList, SMRollList, SMMineList, SMLiftList, SMFakeList, SMKeySoundList

        return dict(Map=SMMap, MapSet=SMMapSet, Hit=SMHit, Hold=SMHold, Bpm=SMBpm, HitList=SMHitList, HoldList=SMHoldList, BpmList=SMBpmList,
                    Roll=SMRoll, RollList=SMRollList, Mine=SMMine, MineList=SMMineList, Lift=SMLift, LiftList=SMLiftList,
                    Fake=SMFake, FakeList=SMFakeList, KeySound=SMKeySound, KeySoundList=SMKeySoundList, Stop=SMStop, StopList=SMStopList)
    if game == "bms":
        from reamber.bms import BMSMap, BMSHit, BMSHold, BMSBpm
        from reamber.bms.lists import BMSBpmList
        from reamber.bms.lists.notes import BMSHitList, BMSHoldList

        return dict(Map=BMSMap, Hit=BMSHit, Hold=BMSHold, Bpm=BMSBpm, HitList=BMSHitList, HoldList=BMSHoldList, BpmList=BMSBpmList)
    if game == "o2j":
        from reamber.o2jam import O2JMap, O2JMapSet, O2JHit, O2JHold, O2JBpm
        from reamber.o2jam.lists import O2JBpmList
        from reamber.o2jam.lists.notes import O2JHitList, O2JHoldList

        return dict(Map=O2JMap, MapSet=O2JMapSet, Hit=O2JHit, Hold=O2JHold, Bpm=O2JBpm, HitList=O2JHitList, HoldList=O2JHoldList, BpmList=O2JBpmList)
    raise KeyError(game)


def build_map(game, hits=(), holds=(), bpms=(), svs=(), extra=None):
    """hits: (t, col[, kw]); holds: (t, col, len[, kw]); bpms: (t, bpm[, kw]); svs: (t, mult)."""
    C = classes(game)
    m = C["Map"]()

    def kw(x, n):
        return x[n] if len(x) > n else {}

    m.hits = C["HitList"]([C["Hit"](h[0], h[1], **kw(h, 2)) for h in hits])
    m.holds = C["HoldList"]([C["Hold"](h[0], h[1], h[2], **kw(h, 3)) for h in holds])
    m.bpms = C["BpmList"]([C["Bpm"](b[0], b[1], **kw(b, 2)) for b in bpms])
    if game in SV_GAMES:
        m.svs = C["SvList"]([C["Sv"](s[0], s[1]) for s in svs])
    for k, items in (extra or {}).items():
        getattr(m, k)  # must exist
        setattr(m, k, type(getattr(m, k))(items))
    return m


def all_list_classes():
    """Every TimedList subclass shipped with the five games plus the base ones, with its item class."""
    from reamber.base.lists.TimedList import TimedList

    for g in GAMES:
        classes(g)
    import reamber.base.lists.notes  # noqa: F401

    out = []
    seen = set()

    def walk(c):
        for s in c.__subclasses__():
            if s not in seen:
                seen.add(s)
                out.append(s)
                walk(s)

    walk(TimedList)
    return sorted([TimedList] + out, key=lambda c: c.__module__ + "." + c.__name__)


# ---------------------------------------------------------------------------------------------
def cell_same(ctx, a, b):
    """Cell equality as a facet: numbers by value (solver), everything else by ``==``/identity."""
    if a is b:
        return True
    na, nb = isna(a), isna(b)
    if na or nb:
        return na and nb
    if isinstance(a, (SymNum, int, float, F, np.number)) and isinstance(b, (SymNum, int, float, F, np.number)) \
            and not isinstance(a, (bool, np.bool_)) and not isinstance(b, (bool, np.bool_)):
        return ctx.eq(a, b)
    try:
        r = a == b
        if isinstance(r, (bool, np.bool_)):
            return bool(r)
        return bool(np.all(r))
    except Exception:
        return False


class DfSnap:
    """Snapshot of a DataFrame: column names/order, dtypes, index labels, cell objects."""

    def __init__(self, df: pd.DataFrame):
        self.columns = list(df.columns)
        self.dtypes = [str(t) for t in df.dtypes]
        self.index = list(df.index)
        self.cells = [list(df[c].array) if df[c].dtype == object else df[c].tolist() for c in df.columns]
        self.n = len(df)

    def same(self, ctx, df: pd.DataFrame, label, dtypes=True, index=True):
        """Facets: df is identical to the snapshot."""
        ctx.check(label + ".columns", list(df.columns) == self.columns, note="%s -> %s" % (self.columns, list(df.columns)))
        if dtypes:
            now = [str(t) for t in df.dtypes]
            ctx.check(label + ".dtypes", now == self.dtypes, note="%s -> %s" % (self.dtypes, now))
        if index:
            ctx.check(label + ".index", list(df.index) == self.index, note="%s -> %s" % (self.index, list(df.index)))
        ctx.check(label + ".len", len(df) == self.n)
        if list(df.columns) == self.columns and len(df) == self.n:
            for c, old in zip(self.columns, self.cells):
                new = list(df[c].array) if df[c].dtype == object else df[c].tolist()
                ctx.check(label + ".cells[%s]" % c, ctx.all(*[cell_same(ctx, a, b) for a, b in zip(old, new)]))


class MapSnap:
    """Snapshot of a chart: every list (DfSnap) and every dataclass field other than objs."""

    def __init__(self, m):
        self.lists = {k: DfSnap(v.df) for k, v in m.objs.items()}
        self.types = {k: type(v) for k, v in m.objs.items()}
        self.fields = {}
        if dataclasses.is_dataclass(m):
            for f in dataclasses.fields(m):
                if f.name == "objs":
                    continue
                v = getattr(m, f.name)
                if hasattr(v, "df"):
                    self.lists["@" + f.name] = DfSnap(v.df)
                else:
                    import copy

                    self.fields[f.name] = copy.deepcopy(v)

    def same(self, ctx, m, label, skip_fields=()):
        for k, s in self.lists.items():
            if k.startswith("@"):
                s.same(ctx, getattr(m, k[1:]).df, "%s.%s" % (label, k[1:]))
            else:
                ctx.check("%s.%s.type" % (label, k), type(m.objs[k]) is self.types[k])
                s.same(ctx, m.objs[k].df, "%s.%s" % (label, k))
        for k, v in self.fields.items():
            if k in skip_fields:
                continue
            ctx.check("%s.field[%s]" % (label, k), cell_same(ctx, getattr(m, k), v), note="%r -> %r" % (v, getattr(m, k)))


def col(df, name):
    """Cells of a column as python objects (works for object and native dtypes)."""
    s = df[name]
    return list(s.array) if s.dtype == object else s.tolist()


def rows(tl, cols=None):
    """List of row tuples of a TimedList (in positional order)."""
    df = tl.df
    cols = cols or list(df.columns)
    data = [col(df, c) for c in cols]
    return [tuple(d[i] for d in data) for i in range(len(df))]


def same_term(a, b):
    """Definite (path-independent) equality: identical objects, syntactically equal normal forms, or equal constants."""
    if a is b:
        return True
    sa, sb = isinstance(a, SymNum), isinstance(b, SymNum)
    if sa or sb:
        return sa and sb and a.p == b.p
    if isna(a) or isna(b):
        return isna(a) and isna(b)
    try:
        return bool(a == b)
    except Exception:
        return False


def same_multiset(ctx, A, B, eq=None):
    """A and B (lists of tuples) are equal as multisets: syntactic matching first, then a solver-decided search over the
    permutations of what is left (sizes are small by construction).  ``eq(a, b)`` compares two tuples (default: cell_same
    on every component)."""
    import itertools

    if len(A) != len(B):
        return False
    custom = eq is not None
    if eq is None:
        def eq(a, b):
            return ctx.all(*[cell_same(ctx, x, y) for x, y in zip(a, b)]) if len(a) == len(b) else False
    if not custom:
        used = [False] * len(B)
        rest = []
        for a in A:
            for j, b in enumerate(B):
                if not used[j] and len(a) == len(b) and all(same_term(x, y) for x, y in zip(a, b)):
                    used[j] = True
                    break
            else:
                rest.append(a)
        left = [b for j, b in enumerate(B) if not used[j]]
    else:
        # under a custom relation only *forced* pairs are fixed beforehand: an element with exactly one partner that is not
        # definitely unrelated must be matched with it in every perfect matching (unit propagation); the relation values are
        # kept, so the forced pairs still contribute their (possibly symbolic) condition
        rel = [[eq(a, b) for b in B] for a in A]
        ai, bj = list(range(len(A))), list(range(len(B)))
        forced = []
        changed = True
        while changed and ai:
            changed = False
            for i in list(ai):
                cand = [j for j in bj if rel[i][j] is not False]
                if not cand:
                    return False
                if len(cand) == 1:
                    forced.append(rel[i][cand[0]])
                    ai.remove(i)
                    bj.remove(cand[0])
                    changed = True
            for j in list(bj):
                cand = [i for i in ai if rel[i][j] is not False]
                if not cand:
                    return False
                if len(cand) == 1:
                    forced.append(rel[cand[0]][j])
                    ai.remove(cand[0])
                    bj.remove(j)
                    changed = True
        # what is left falls apart into independent groups (rows that can only be related to rows of their own group, e.g. one
        # lane, one sample): each group is searched on its own
        comps, seen_i = [], set()
        for i0 in ai:
            if i0 in seen_i:
                continue
            ci, cj, todo = {i0}, set(), [("i", i0)]
            while todo:
                side, k = todo.pop()
                if side == "i":
                    for j in bj:
                        if rel[k][j] is not False and j not in cj:
                            cj.add(j)
                            todo.append(("j", j))
                else:
                    for i in ai:
                        if rel[i][k] is not False and i not in ci:
                            ci.add(i)
                            todo.append(("i", i))
            seen_i |= ci
            comps.append((sorted(ci), sorted(cj)))
        parts = []
        for ci, cj in comps:
            if len(ci) != len(cj) or len(ci) > 6:
                return False
            parts.append(ctx.any(*[ctx.all(*[rel[i][j] for i, j in zip(ci, p)]) for p in itertools.permutations(cj)]))
        if len({j for _ci, cj in comps for j in cj}) != len(bj):
            return False
        return ctx.all(ctx.all(*forced), *parts)
    if not rest:
        return True
    if len(rest) > 6:
        return False
    return ctx.any(*[ctx.all(*[eq(a, b) for a, b in zip(rest, p)]) for p in itertools.permutations(left)])


def is_int_numeral(ctx, s):
    """the text field denotes an integer (a token whose term is syntactically integral, or a plain integer numeral)."""
    import re
    from symx import tokens
    from symx.core import p_integral

    v = tokens.detok(s) if ctx.sym else None
    if v is not None:
        return (not isinstance(v, SymNum)) and float(v).is_integer() or (isinstance(v, SymNum) and p_integral(v.p))
    return re.match(r"^\s*-?\d+\s*$", s if isinstance(s, str) else bytes(s).decode()) is not None


def same_steps(ctx, A, B, tol=0):
    """A and B ([(position, value)], concrete positions) denote the same step function from their first position on: equal
    values at every breakpoint of either (redundant breakpoints are allowed)."""
    A, B = sorted(A, key=lambda p: p[0]), sorted(B, key=lambda p: p[0])
    if not A or not B or A[0][0] != B[0][0]:
        return False

    def at(L, x):
        cur = L[0][1]
        for p, v in L:
            if p <= x:
                cur = v
        return cur

    pts = sorted({p for p, _v in A} | {p for p, _v in B})
    return ctx.all(*[ctx.within(at(A, x), at(B, x), tol, strict=False) if tol else ctx.eq(at(A, x), at(B, x)) for x in pts])
