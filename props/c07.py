"""C07 - O2Jam reading places every note and tempo change at the time its measure implies."""
from __future__ import annotations

import itertools
from fractions import Fraction as F
from functools import partial

from symx.run import Obligation
from symx.core import SymNum, isna
from symx import hook
from oracles import ojn as ref
from .common import col, cell_same, same_multiset

HDR = dict(song_id=1234, signature="ojn", encode_version=2.9, genre=3, bpm=None, level=[5, 17, 33, 0], event_count=[10, 20, 30], note_count=[11, 21, 31],
           measure_count=[12, 22, 32], package_count=None, old_encode_version=29, old_song_id=77, old_genre=b"oldgenre", bmp_size=4321, old_file_version=6,
           title="A Title", artist="An Artist", creator="A Noter", ojm_file="song.ojm", cover_size=999, duration=[61, 62, 63], note_offset=[300, 400, 500], cover_offset=600)


def _install_unpack():
    import struct

    def stub(fmt, data):
        if fmt in ("<f", "f"):
            v = ref.unmark(bytes(data))
            if v is not None:
                return (v,)
        return None

    hook.STUBS["unpack"] = stub


def N(kind, vol=3, pan=5, value=1):
    return ("note", kind, vol, pan, value)


FULL = dict(title="T" * 63 + "x", artist="A" * 31 + "y", creator="C" * 31 + "z", ojm_file="o" * 28 + ".ojm")


def build(ctx, levels, names):
    """levels: 3 lists of packages (measure, channel, events) where a tempo event is ('bpm', name)"""
    ref.reset()
    L = {}

    def bpm(name):
        if name not in L:
            x = ctx.real("L_" + str(name))
            ctx.assume(x > 0)
            L[name] = x
        b = 60000 / L[name]
        if not isinstance(b, SymNum):  # concrete runs: the file stores a float32, so that is the tempo the file denotes
            import struct

            b = struct.unpack("<f", struct.pack("<f", b))[0]
        return b

    h = dict(HDR)
    if names == "full-width-strings":
        h.update(FULL)
    h["bpm"] = bpm("init")
    h["package_count"] = [len(l) for l in levels]
    b = ref.header(h)
    sym_levels = []
    for lv in levels:
        out = []
        for measure, channel, events in lv:
            evs = [("bpm", bpm(e[1])) if (e is not None and e[0] == "bpm") else e for e in events]
            out.append((measure, channel, evs))
            b += ref.package(measure, channel, evs)
        sym_levels.append(out)
    return b, h, sym_levels


def ob_read(levels, ctx, header=None):
    from reamber.o2jam import O2JMapSet

    data, h, sym_levels = build(ctx, levels, header)
    if hook.installed():
        _install_unpack()
    try:
        ms = O2JMapSet.read(data)
    finally:
        hook.STUBS.pop("unpack", None)
    for k in ("song_id", "signature", "genre", "level", "event_count", "note_count", "measure_count", "package_count", "old_encode_version", "old_song_id", "bmp_size",
              "old_file_version", "title", "artist", "creator", "ojm_file", "cover_size", "duration", "note_offset", "cover_offset"):
        got, want = getattr(ms, k), h[k]
        ctx.check("header[%s]" % k, list(got) == list(want) if isinstance(want, list) else got == want, note="%r vs %r" % (got, want))
    ctx.check("header[old_genre]", bytes(ms.old_genre).rstrip(b"\0") == h["old_genre"])
    ctx.check("header[encode_version]", abs(float(ms.encode_version) - 2.9) < 1e-6)
    ctx.check("header[bpm]", ctx.eq(ms.bpm, h["bpm"]))
    ctx.check("difficulties", len(ms.maps) == 3, note="%d" % len(ms.maps))
    for li, (m, lv) in enumerate(zip(ms.maps, sym_levels)):
        d = ref.denote(lv)
        lab = "level%d" % li
        hl = list(zip(col(m.hits.df, "column"), col(m.hits.df, "offset"), col(m.hits.df, "volume"), col(m.hits.df, "pan"))) if len(m.hits) else []
        ll = list(zip(col(m.holds.df, "column"), col(m.holds.df, "offset"), col(m.holds.df, "length"), col(m.holds.df, "volume"), col(m.holds.df, "pan"))) if len(m.holds) else []
        rh = [(o["col"], ref.ms_of(d, h["bpm"], o["pos"]), o["volume"], o["pan"]) for o in d["hits"]]
        rl = [(o["col"], ref.ms_of(d, h["bpm"], o["pos"]), ref.ms_of(d, h["bpm"], o["end"]) - ref.ms_of(d, h["bpm"], o["pos"]), o["volume"], o["pan"]) for o in d["holds"]]
        ctx.check(lab + ".hits.count", len(hl) == len(rh), note="%d vs %d" % (len(hl), len(rh)))
        ctx.check(lab + ".holds.count", len(ll) == len(rl), note="%d vs %d" % (len(ll), len(rl)))
        # (measure positions are doubles in the reader - slot/slots - so times are compared up to 1e-9 relative; they are >= 0)
        rel = F(1, 10**9)

        def mk_eq(rel_):
            def eq(a, b):
                if a[0] != b[0] or tuple(a[-2:]) != tuple(b[-2:]):
                    return False
                conds = [ctx.within(a[1], b[1], (a[1] + b[1] + 1) * rel_, strict=False)]
                if len(a) == 5:
                    conds.append(ctx.within(a[1] + a[2], b[1] + b[2], (a[1] + a[2] + b[1] + b[2] + 1) * rel_, strict=False))
                return ctx.all(*conds)

            return eq

        eq = mk_eq(rel)
        ctx.check(lab + ".hits.column-time", same_multiset(ctx, hl, rh, eq=eq), note="%r vs %r" % (hl[:3], rh[:3]))
        ctx.check(lab + ".holds.column-time-length", same_multiset(ctx, ll, rl, eq=eq), note="%r vs %r" % (ll[:3], rl[:3]))
        # twin facets with a coarse tolerance: a solver counterexample to them is off by more than 0.01 %, which the float replay
        # sees (counterexamples to the exact facets above may differ by 1e-9 only)
        loose = mk_eq(F(1, 10**4))
        ctx.check(lab + ".hits.column-time{within-0.01%}", same_multiset(ctx, hl, rh, eq=loose))
        ctx.check(lab + ".holds.column-time-length{within-0.01%}", same_multiset(ctx, ll, rl, eq=loose))
        bp = list(zip(col(m.bpms.df, "offset"), col(m.bpms.df, "bpm")))
        ctx.check(lab + ".tempo.initial", ctx.any(*[ctx.all(ctx.eq(t, 0), ctx.eq(v, h["bpm"])) for t, v in bp]))
        prev = h["bpm"]
        for j, (pos, v) in enumerate(d["tempo"]):
            t = ref.ms_of(d, h["bpm"], pos)
            # (an event that repeats the tempo already active is not a change: it may be absent)
            ctx.check("%s.tempo-event%d.at-its-time" % (lab, j), ctx.any(ctx.eq(v, prev), *[ctx.all(ctx.within(x, t, (x + t + 1) * rel, strict=False), ctx.eq(y, v)) for x, y in bp]), note="event at measure %s" % pos)
            prev = v
        ctx.check(lab + ".tempo.no-invented-points", len(bp) <= len(d["tempo"]) + 1, note="%d vs %d" % (len(bp), len(d["tempo"]) + 1))
        for i, r in enumerate(hl):
            ctx.observe("%s.hit%d.t" % (lab, i), r[1])


# ---------------------------------------------------------------------------------------------
def level_sets():
    B = lambda n: ("bpm", n)
    S = {}
    S["notes-only"] = [(0, 2, [N("hit"), None, N("hit"), None]), (1, 8, [None, N("hit")]), (2, 5, [N("hit"), None, None])]
    S["one-tempo-at-0"] = [(0, 1, [B("a")]), (0, 3, [N("hit"), None]), (2, 4, [None, None, N("hit"), None])]
    S["one-tempo-mid"] = [(1, 1, [None, B("a")]), (0, 2, [N("hit")]), (1, 2, [None, None, None, N("hit")]), (3, 6, [N("hit"), N("hit")])]
    S["two-tempos"] = [(1, 1, [B("a")]), (2, 1, [None, B("b"), None, None]), (0, 2, [N("hit")]), (1, 3, [None, N("hit")]), (2, 4, [None, None, N("hit"), None]), (4, 8, [N("hit")])]
    S["three-tempos"] = [(0, 1, [B("a"), None]), (1, 1, [B("b")]), (3, 1, [None, None, B("c")]), (0, 2, [None, N("hit")]), (2, 2, [N("hit")]), (5, 7, [None, N("hit"), None])]
    S["tempo-after-last-note"] = [(1, 1, [B("a")]), (6, 1, [None, B("b")]), (0, 2, [N("hit")]), (2, 3, [N("hit")])]
    S["ln-in-package"] = [(0, 2, [N("head"), None, N("tail"), None]), (0, 3, [N("hit")])]
    S["ln-across-packages"] = [(0, 2, [None, N("head", 7, 2)]), (1, 2, [None, None, N("tail")]), (1, 1, [B("a")]), (0, 4, [N("hit")])]
    S["ln-across-tempo"] = [(0, 5, [N("head")]), (1, 1, [None, B("a")]), (3, 5, [None, N("tail"), None]), (3, 1, [B("b")]), (4, 8, [N("hit")])]
    S["all-columns"] = [(0, 2 + i, [N("hit") if j == i % 4 else None for j in range(4)]) for i in range(7)] + [(0, 1, [None, B("a")])]
    S["48-events"] = [(0, 2, [N("hit") if j in (1, 47) else None for j in range(48)]), (0, 1, [B("a") if j == 24 else None for j in range(48)])]
    S["two-tempo-packages-one-measure"] = [(1, 1, [None, None, None, B("a")]), (1, 1, [None, B("b")]), (0, 2, [N("hit")]), (1, 2, [None, None, N("hit"), None]), (2, 3, [N("head"), None]), (3, 3, [N("tail")])]
    S["coinciding-tempo-events"] = [(1, 1, [None, B("a")]), (1, 1, [None, None, B("b"), None]), (0, 2, [N("hit")]), (2, 2, [N("hit"), None]), (3, 4, [None, N("hit")])]
    S["large-sample-ids"] = [(0, 2, [N("hit", value=0x8001), None, N("hit", value=0xFFFF), None]), (1, 3, [N("head", value=0x9000), None]), (2, 3, [None, N("tail", value=0x8000)]),
                             (1, 1, [B("a")])]
    S["odd-slot-counts"] = [(0, 2, [N("hit") if j in (1, 4) else None for j in range(5)]), (1, 3, [N("head") if j == 3 else None for j in range(7)]),
                            (2, 3, [N("tail") if j == 7 else None for j in range(10)]), (1, 1, [B("a") if j == 13 else None for j in range(20)]),
                            (3, 4, [N("hit") if j == 101 else None for j in range(256)])]
    S["note-inside-ln-across-tempos"] = [(0, 2, [N("head")]), (1, 1, [B("a")]), (2, 3, [None, N("hit")]), (3, 1, [None, B("b")]), (4, 2, [N("tail"), None]), (5, 4, [N("hit")]),
                                         (2, 5, [N("head"), None, None, None]), (3, 5, [None, None, None, N("tail")])]
    S["empty"] = []
    return S


def random_level(rng):
    """a generated difficulty: hits / one long note per column on distinct (measure, slot) positions, 0-3 tempo events, packages in random file order"""
    divs = (1, 2, 3, 4, 5, 6, 7, 8, 10, 12, 16, 20, 128, 192)
    pk = []
    names = iter("abc")
    for _ in range(rng.randint(0, 3)):
        n = rng.choice(divs)
        evs = [None] * n
        evs[rng.randrange(n)] = ("bpm", next(names))
        pk.append((rng.randint(0, 5), 1, evs))
    for c in rng.sample(range(7), rng.randint(1, 4)):
        if rng.random() < 0.4:  # a long note: head and tail in different packages of the column, tail strictly later
            m0 = rng.randint(0, 3)
            n0, n1 = rng.choice(divs), rng.choice(divs)
            e0, e1 = [None] * n0, [None] * n1
            e0[rng.randrange(n0)] = N("head", rng.randint(0, 15), rng.randint(0, 15), rng.choice((1, 0x8001)))
            e1[rng.randrange(n1)] = N("tail")
            pk += [(m0, 2 + c, e0), (m0 + rng.randint(1, 2), 2 + c, e1)]
        else:
            for m in rng.sample(range(6), rng.randint(1, 2)):
                n = rng.choice(divs)
                evs = [None] * n
                for j in rng.sample(range(n), min(n, rng.randint(1, 2))):
                    evs[j] = N("hit", rng.randint(0, 15), rng.randint(0, 15), rng.choice((1, 7, 0xFFFF)))
                pk.append((m, 2 + c, evs))
    rng.shuffle(pk)
    # (a long note's head package precedes its tail package in the file - the reader pairs them in file order, and
    # files list packages by measure; any other interleaving is free)
    for c in range(2, 9):
        idx = [i for i, p_ in enumerate(pk) if p_[1] == c and any(e is not None and e[1] in ("head", "tail") for e in p_[2])]
        if len(idx) == 2 and pk[idx[0]][0] > pk[idx[1]][0]:
            pk[idx[0]], pk[idx[1]] = pk[idx[1]], pk[idx[0]]
    return pk


def obligations(tier, seed):
    quick = tier == "quick"
    obs = []
    S = level_sets()
    import random

    rng = random.Random(1000 + seed)
    for k in range(4 if quick else 60):
        lv = [random_level(rng) for _ in range(3)]
        obs.append(Obligation("C07/read/generated%d" % k, partial(ob_read, lv),
                              bound="generated OJN (seed %d): per difficulty up to 3 tempo events, hits and long notes on up to 4 columns, package sizes 1..192, random package order: %r" % (seed, lv)))
    names = list(S)
    for i, n in enumerate(names):
        others = [names[(i + 3) % len(names)], names[(i + 7) % len(names)]]
        obs.append(Obligation("C07/read/%s" % n, partial(ob_read, [S[n], S[others[0]], S[others[1]]]),
                              bound="OJN with difficulties %s / %s / %s; header tempo and every tempo event symbolic; 300-byte header with a distinct value per field" % (n, others[0], others[1])))
        obs.append(Obligation("C07/read/%s/reversed-packages" % n, partial(ob_read, [list(reversed(S[n])), [], S[others[0]]]),
                              bound="same packages in reverse file order (difficulty %s)" % n)) if not any(e is not None and e[0] == "note" and e[1] != "hit" for _m, _c, evs in S[n] for e in evs) else None
    if not quick:  # every package set as the first, second and third difficulty; every file order of the small sets
        for i, n in enumerate(names):
            for pos in (1, 2):
                lv = [S[names[(i + 5) % len(names)]], S[names[(i + 9) % len(names)]]]
                lv.insert(pos, S[n])
                obs.append(Obligation("C07/read/%s/as-difficulty%d" % (n, pos), partial(ob_read, lv), bound="package set %s as difficulty %d" % (n, pos)))
            if 1 < len(S[n]) <= 4 and not any(e is not None and e[0] == "note" and e[1] != "hit" for _m, _c, evs in S[n] for e in evs):
                for pi, perm in enumerate(itertools.permutations(range(len(S[n])))):
                    if pi:
                        obs.append(Obligation("C07/read/%s/order%d" % (n, pi), partial(ob_read, [[S[n][j] for j in perm], [], []]), bound="packages of %s in file order %s" % (n, perm)))
    obs.append(Obligation("C07/read/full-width-header-strings", partial(ob_read, [S["one-tempo-mid"], [], []], header="full-width-strings"),
                          bound="title/artist/noter/ojm fields filled to their full 64/32 bytes (no terminating NUL)"))
    return obs
