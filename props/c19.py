"""C19 - Dominant bpm, scroll speed and SV normalisation follow their definitions."""
from __future__ import annotations

import itertools
from functools import partial

from symx.run import Obligation
from symx.core import isna
from .common import SV_GAMES, classes, build_map, col

GAMES19 = ["osu", "qua", "sm", "bms", "o2j"]


def _chart(ctx, game, nb, ns, nn, perm=None, sv_on_bpm=False, sv_before=False, two_sv_same=False):
    """nb tempo points (distinct times), ns SVs, nn hits.  Domain of the property: a tempo point at or before the first
    object; every tempo/SV point at or before the last note (DESIGN appendix A)."""
    bt = ctx.reals("bt", nb)
    bv = ctx.reals("bpm", nb)
    nt = ctx.reals("nt", nn)
    for v in bv:
        ctx.assume(v > 0)
    for a, b in itertools.combinations(bt, 2):
        ctx.assume(a != b)
    # bt[0] is the earliest tempo point and is at or before every note; nt[-1] is the last object
    for x in bt[1:]:
        ctx.assume(bt[0] < x)
    for x in nt:
        ctx.assume(bt[0] <= x)
        ctx.assume(x <= nt[-1])
    for x in bt:
        ctx.assume(x <= nt[-1])
    svs = []
    if game in SV_GAMES:
        st = ctx.reals("st", ns)
        sm = ctx.reals("mult", ns)
        for i in range(ns):
            ctx.assume(sm[i] > 0)
            ctx.assume(st[i] <= nt[-1])
            if sv_on_bpm and i == 0:
                ctx.assume(st[i] == bt[nb - 1])
            elif sv_before and i == 0:
                ctx.assume(st[i] < bt[0])
            if two_sv_same and i == 1:
                ctx.assume(st[1] == st[0])
            elif i == 1:
                ctx.assume(st[1] != st[0])
        svs = list(zip(st, sm))
    bpms = list(zip(bt, bv))
    if perm:
        bpms = [bpms[i] for i in perm]
    m = build_map(game, [(x, i % 4) for i, x in enumerate(nt)], [], bpms, svs)
    return m, list(zip(bt, bv)), svs, nt


def _sorted(ctx, pts):
    """insertion sort by time with forking comparisons (times are distinct)."""
    out = []
    for p in pts:
        i = 0
        while i < len(out) and out[i][0] < p[0]:
            i += 1
        out.insert(i, p)
    return out


def _totals(ctx, bpms, last):
    """[(bpm value, total active time)] per distinct value (value equality forks)."""
    s = _sorted(ctx, bpms)
    durs = [(s[i][1], (s[i + 1][0] if i + 1 < len(s) else last) - s[i][0]) for i in range(len(s))]
    groups = []
    for v, d in durs:
        for g in groups:
            if g[0] == v:
                g[1] = g[1] + d
                break
        else:
            groups.append([v, d])
    return groups


def _check_dominant(ctx, label, got, bpms, last):
    groups = _totals(ctx, bpms, last)
    alts = [ctx.all(ctx.eq(got, v), *[ctx.ge(tot, t2) for _v2, t2 in groups]) for v, tot in groups]
    ctx.check(label, ctx.any(*alts), note="returned %r; totals per value %r" % (ctx.value(got), [(ctx.value(v), ctx.value(t)) for v, t in groups]))
    ctx.observe(label, got)


def ob_dominant(game, nb, nn, perm, ctx, extend=False):
    from reamber.algorithms.utils import dominant_bpm

    m, bpms, _svs, nt = _chart(ctx, game, nb, 0, nn, perm)
    got = dominant_bpm(m)
    _check_dominant(ctx, "dominant-bpm.is-argmax-of-active-time", got, bpms, nt[-1])
    if extend:  # the chart grows after a first analysis: the answer must follow the chart, not the earlier call
        from reamber.algorithms.analysis import scroll_speed

        later = ctx.real("later")
        ctx.assume(later > nt[-1])
        m.hits = m.hits.append(type(m.hits)._item_class()(later, 1) if game not in ("bms", "qua") else m.hits[0].__class__(**dict(m.hits[0].data.to_dict(), offset=later)))
        got2 = dominant_bpm(m)
        _check_dominant(ctx, "dominant-bpm.after-extending-the-chart", got2, bpms, later)
        ov = scroll_speed(m)
        ctx.check("scroll-speed.after-extending.reaches-the-new-end", ctx.any(*[ctx.eq(x, later) for x in list(ov.index)]))


def _active(ctx, pts, x, default):
    """value of the latest point at or before x (pts sorted by time), else default."""
    cur = default
    for t, v in pts:
        if t <= x:
            cur = v
    return cur


def ob_scroll_speed(game, nb, ns, variant, override, ctx):
    from reamber.algorithms.analysis import scroll_speed
    from reamber.algorithms.utils import dominant_bpm

    m, bpms, svs, nt = _chart(ctx, game, nb, ns, 2, None, sv_on_bpm=variant == "sv-on-bpm", sv_before=variant == "sv-before", two_sv_same=variant == "two-sv-same")
    if override:
        ref = ctx.real("override")
        ctx.assume(ref > 0)
        res = scroll_speed(m, override_bpm=ref)
    else:
        res = scroll_speed(m)
        ref = dominant_bpm(m)
        _check_dominant(ctx, "reference-is-dominant-bpm", ref, bpms, nt[-1])
    idx = list(res.index)
    vals = list(res.array) if res.dtype == object else res.tolist()
    sb = _sorted(ctx, bpms)
    has_sv = game in SV_GAMES
    # every tempo/SV time is a breakpoint of the result
    for i, (t, _v) in enumerate(bpms):
        ctx.check("breakpoints.contain-tempo%d" % i, ctx.any(*[ctx.eq(x, t) for x in idx]))
    for i, (t, _v) in enumerate(svs):
        ctx.check("breakpoints.contain-sv%d" % i, ctx.any(*[ctx.eq(x, t) for x in idx]))
    # value at every breakpoint = active bpm / ref * active multiplier
    for j, (x, y) in enumerate(zip(idx, vals)):
        bpm_here = _active(ctx, sb, x, sb[0][1])
        alts = []
        if has_sv:
            # the multiplier timeline: tempo points reset it to 1, an SV at the same time as a tempo point wins,
            # two SVs at one time: either may win
            orders = [svs] if len(svs) < 2 else [svs, svs[::-1]]
            for order in orders:
                pts = [(t, 1, 0, k) for k, (t, _v) in enumerate(sb)] + [(t, v, 1, k) for k, (t, v) in enumerate(order)]
                cur, cur_t, cur_rank = 1, None, None
                for t, v, rank, k in pts:
                    if t <= x:
                        if cur_t is None or t > cur_t or (t == cur_t and (rank, k) >= cur_rank):
                            cur, cur_t, cur_rank = v, t, (rank, k)
                alts.append(ctx.eq(y * ref, bpm_here * cur))
        else:
            alts.append(ctx.eq(y * ref, bpm_here))
        ctx.check("speed-at-breakpoint%d" % j, ctx.any(*alts), note="at %r speed %r" % (ctx.value(x), ctx.value(y)))
        ctx.observe("speed%d" % j, y)


def ob_sv_normalize(game, nb, override, perm, ctx):
    from reamber.algorithms.generate import sv_normalize
    from reamber.algorithms.utils import dominant_bpm

    m, bpms, svs, nt = _chart(ctx, game, nb, 1, 2, perm)
    if override:
        ref = ctx.real("override")
        ctx.assume(ref > 0)
        out = sv_normalize(m, override_bpm=ref)
    else:
        out = sv_normalize(m)
        ref = dominant_bpm(m)
        _check_dominant(ctx, "reference-is-dominant-bpm", ref, bpms, nt[-1])
    C = classes(game)
    ctx.check("result.type", type(out) is C["SvList"], note=type(out).__name__)
    names = set(C["SvList"]([]).df.columns)
    ctx.check("result.columns", set(out.df.columns) == names, note="%s" % list(out.df.columns))
    ctx.check("result.one-sv-per-tempo-point", len(out) == len(bpms), note="%d vs %d" % (len(out), len(bpms)))
    if len(out) != len(bpms) or "multiplier" not in out.df.columns:
        return
    rows = list(zip(col(out.df, "offset"), col(out.df, "multiplier")))
    # one SV per tempo point, at its time (tempo points never share a time, so the pairing is unique; row order is free)
    for i, (bt_, bv_) in enumerate(bpms):
        ctx.check("tempo-point%d.has-its-sv-with-multiplier-times-bpm-equal-reference" % i,
                  ctx.any(*[False if isna(mu) else ctx.all(ctx.eq(t, bt_), ctx.eq(mu * bv_, ref)) for t, mu in rows]), note="rows %r" % ([(ctx.value(a), ctx.value(b)) for a, b in rows],))
    for i, (t, mu) in enumerate(rows):
        ctx.observe("sv%d.mult" % i, mu)
    bad = [c for c in out.df.columns if any(isna(v) for v in col(out.df, c))]
    ctx.check("result.no-missing-values", not bad, note="%s" % bad)


def obligations(tier, seed):
    quick = tier == "quick"
    obs = []
    for g in GAMES19:
        for nb in ((1, 2, 3) if (g in ("osu", "sm") or not quick) else (2,)):
            perms = [None] + ([p for p in itertools.permutations(range(nb)) if list(p) != list(range(nb))] if nb > 1 else [])
            if quick:
                perms = perms[:2] + perms[-1:] if nb == 3 else perms
            for perm in perms:
                for nn in ((1, 2) if nb < 3 else (1,)):
                    pn = "".join(map(str, perm)) if perm else "sorted"
                    obs.append(Obligation("C19/dominant/%s/b%d/n%d/rows=%s" % (g, nb, nn, pn), partial(ob_dominant, g, nb, nn, perm),
                                          bound="%s chart, %d tempo points (distinct symbolic times, symbolic bpm>0, equal values arise as paths), %d notes, tempo rows in order %s"
                                                % (g, nb, nn, pn), max_paths=5000, timeout_s=240))
    for g in (("osu", "sm") if quick else GAMES19):
        for nb in (2, 3):
            obs.append(Obligation("C19/dominant-after-extending/%s/b%d" % (g, nb), partial(ob_dominant, g, nb, 1, None, extend=True),
                                  bound="%s chart with %d tempo points analysed, then extended by a later note (symbolic time), analysed again" % (g, nb), max_paths=5000, timeout_s=240))
    for g in (("osu", "qua", "sm") if quick else GAMES19):
        has_sv = g in SV_GAMES
        for nb in (1, 2):
            for ns, variant in ([(0, "plain"), (1, "plain"), (1, "sv-on-bpm"), (1, "sv-before"), (2, "plain"), (2, "two-sv-same")] if has_sv else [(0, "plain")]):
                if nb == 2 and ns == 2 and quick:
                    continue
                for override in (False, True):
                    obs.append(Obligation("C19/scroll/%s/b%d/s%d/%s/%s" % (g, nb, ns, variant, "override" if override else "dominant"),
                                          partial(ob_scroll_speed, g, nb, ns, variant, override),
                                          bound="%s chart, %d tempo points, %d SVs (%s), 2 notes; all times/bpms/multipliers%s symbolic" % (g, nb, ns, variant, "/override" if override else ""),
                                          max_paths=8000, timeout_s=400))
    for g in SV_GAMES:
        for nb in (1, 2, 3):
            for override in (False, True):
                perms = [None] + ([tuple(reversed(range(nb)))] if nb > 1 else [])
                for perm in perms:
                    if nb == 3 and not override and quick and perm:
                        continue
                    obs.append(Obligation("C19/normalize/%s/b%d/%s/rows=%s" % (g, nb, "override" if override else "dominant", "rev" if perm else "sorted"),
                                          partial(ob_sv_normalize, g, nb, override, perm),
                                          bound="%s chart, %d tempo points, 1 SV, 2 notes, symbolic values" % (g, nb), max_paths=5000, timeout_s=240))
    return obs
