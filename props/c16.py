"""C16 - Timed lists behave like ordered collections of their rows.

Every list class of every game (found by reflection) is filled with rows whose offsets / lengths / bpms
are solver variables; a history of list operations is applied to the real list and to a plain
list-of-dicts model (the reference semantics written from the property statement); after every
operation and for every observer the two must agree on every feasible path, for all values.
"""
from __future__ import annotations

import itertools
from functools import partial

import pandas as pd

from symx.run import Obligation
from symx.core import isna
from .common import all_list_classes, cell_same, col, same_term

SYM_COLS = ("offset", "length", "bpm", "multiplier")
NICE = dict(sample=b"x.wav", hitsound_file="f.wav", sample_file="s.wav", volume=30, pan=3)


def list_class(name):
    for c in all_list_classes():
        if c.__name__ == name:
            return c
    raise KeyError(name)


def declared(cls):
    return dict(cls._item_class()._props)


def is_hold(cls):
    from reamber.base.lists.notes.HoldList import HoldList

    return issubclass(cls, HoldList)


def mk_rows(ctx, cls, n, prefix="r"):
    """n model rows (dict field -> cell) with symbolic time-like fields."""
    props = declared(cls)
    out = []
    for i in range(n):
        r = {}
        for k, (_t, dflt) in props.items():
            if k in SYM_COLS:
                r[k] = ctx.real("%s%d_%s" % (prefix, i, k))
                if k == "bpm":
                    ctx.assume(r[k] > 0)
            elif k == "column":
                r[k] = i % 4
            elif k in NICE:
                r[k] = NICE[k]
            elif k == "keysounds":
                r[k] = ["k%d" % i]
            elif isinstance(dflt, bool):  # every other field gets a value that is not the item constructor's default
                r[k] = not dflt
            elif isinstance(dflt, int):
                r[k] = dflt + 1 + i
            elif isinstance(dflt, str):
                r[k] = dflt + "v%d" % i
            else:
                r[k] = dflt
        out.append(r)
    return out


def mk_list(cls, rows, how="items"):
    item = cls._item_class()
    if how == "items":
        return cls([item(**r) for r in rows])
    if how == "df":
        cols = list(cls([]).df.columns)
        return cls(pd.DataFrame({c: pd.Series([r[c] for r in rows], dtype=object if rows else None) for c in cols}))
    if how == "dict":
        return cls.from_dict([dict(r) for r in rows])
    raise KeyError(how)


def frame_rows(tl):
    df = tl.df
    data = {c: col(df, c) for c in df.columns}
    return [{c: data[c][i] for c in df.columns} for i in range(len(df))]


def _colfacet(label, cols, names):
    extra = sorted(str(c) for c in set(cols) - names)
    missing = sorted(names - set(cols))
    tag = "".join("+" + c for c in extra) + "".join("-" + c for c in missing)
    return label + ".columns" + ("(%s)" % tag if tag else "")


def same_rows(ctx, label, tl, rows, cls):
    """The list holds exactly ``rows`` (declared fields only are compared cell by cell; an undeclared extra column
    is reported by its own facet so that the remaining behaviour stays checked)."""
    names = set(declared(cls))
    got = frame_rows(tl)
    cols = list(tl.df.columns)
    ctx.check(label + ".type", type(tl) is cls, note="%s" % type(tl).__name__)
    ctx.check(_colfacet(label, cols, names), set(cols) == names and len(cols) == len(names), note="%s vs declared %s" % (sorted(map(str, cols)), sorted(names)))
    ctx.check(label + ".len", len(got) == len(rows), note="%d vs %d" % (len(got), len(rows)))
    if len(got) != len(rows) or not names <= set(cols):
        return False
    ctx.check(label + ".rows", ctx.all(*[cell_same(ctx, g[k], r[k]) for g, r in zip(got, rows) for k in names]))
    return True


def _definitely_same(a, b):
    return same_term(a, b)


def is_perm(got, rows):
    used = [False] * len(rows)
    if len(got) != len(rows):
        return False
    for g in got:
        for j, r in enumerate(rows):
            if not used[j] and set(r) <= set(g) and all(_definitely_same(g[k], r[k]) for k in r):
                used[j] = True
                break
        else:
            return False
    return True


# ---------------------------------------------------------------------------------------------
# operations: each returns (new real list, new model rows); ``i`` numbers the fresh variables
# ---------------------------------------------------------------------------------------------
def _key(r, plus_len):
    return r["offset"] + r["length"] if plus_len else r["offset"]


def m_after(rows, b, incl, tail=False):
    return [r for r in rows if (_key(r, tail) >= b if incl else _key(r, tail) > b)]


def m_before(rows, b, incl, head=True):
    return [r for r in rows if (_key(r, not head) <= b if incl else _key(r, not head) < b)]


def _check_sorted(ctx, label, tl, rows, cls, rev):
    got = frame_rows(tl)
    ctx.check(label + ".type", type(tl) is cls)
    names = set(declared(cls))
    ctx.check(_colfacet(label, list(tl.df.columns), names), set(tl.df.columns) == names, note="%s" % sorted(map(str, tl.df.columns)))
    ctx.check(label + ".is-permutation", is_perm(got, rows), note="sorted result is not a permutation of the rows")
    offs = [g["offset"] for g in got]
    ctx.check(label + ".ordered", ctx.all(*[(ctx.ge(a, b) if rev else ctx.le(a, b)) for a, b in zip(offs, offs[1:])]))
    return got


def apply_op(ctx, op, i, tl, rows, cls):
    """-> (tl', rows') and records the comparison facets."""
    kind = op[0]
    label = "op%d:%s" % (i, "/".join(str(x) for x in op))
    if kind == "after":
        b = ctx.real("b%d" % i)
        kw = dict(op[2]) if len(op) > 2 else {}
        out = tl.after(b, include_end=op[1], **kw)
        exp = m_after(rows, b, op[1], tail=kw.get("include_tail", False))
    elif kind == "before":
        b = ctx.real("b%d" % i)
        kw = dict(op[2]) if len(op) > 2 else {}
        out = tl.before(b, include_end=op[1], **kw)
        exp = m_before(rows, b, op[1], head=kw.get("include_head", True))
    elif kind == "between":
        lo, hi = ctx.real("lo%d" % i), ctx.real("hi%d" % i)
        ends = op[1]
        kw = dict(op[2]) if len(op) > 2 else {}
        out = tl.between(lo, hi, include_ends=ends, **kw)
        e = (ends, ends) if isinstance(ends, bool) else ends
        exp = m_before(m_after(rows, lo, e[0], tail=kw.get("include_tail", False)), hi, e[1], head=kw.get("include_head", True))
    elif kind == "between_default":
        lo, hi = ctx.real("lo%d" % i), ctx.real("hi%d" % i)
        out = tl.between(lo, hi)
        exp = m_before(m_after(rows, lo, True), hi, False)
    elif kind == "sorted":
        out = tl.sorted(reverse=op[1]) if op[1] is not None else tl.sorted()
        got = _check_sorted(ctx, label, out, rows, cls, bool(op[1]))
        return out, got
    elif kind == "append_item":
        new = mk_rows(ctx, cls, 1, prefix="a%d_" % i)[0]
        item = cls._item_class()(**new)
        out = tl.append(item, sort=op[1]) if op[1] is not None else tl.append(item)
        if op[1]:
            got = _check_sorted(ctx, label, out, rows + [new], cls, False)
            return out, got
        exp = rows + [new]
    elif kind == "append_list":
        new = mk_rows(ctx, cls, op[2], prefix="a%d_" % i)
        other = mk_list(cls, new)
        out = tl.append(other, sort=op[1])
        if op[1]:
            got = _check_sorted(ctx, label, out, rows + new, cls, False)
            return out, got
        exp = rows + new
    elif kind == "slice":
        s = slice(*op[1])
        out = tl[s]
        exp = rows[s]
    elif kind == "mask":
        pat = [bool(op[1][j % len(op[1])]) for j in range(len(rows))]
        out = tl[pat] if pat else tl  # an empty list is a column selection in pandas, not a mask
        exp = [r for r, p in zip(rows, pat) if p]
    elif kind == "mask_series":
        b = ctx.real("b%d" % i)
        out = tl[tl.offset >= b]
        exp = m_after(rows, b, True)
    elif kind == "deepcopy":
        out = tl.deepcopy()
        exp = rows
    else:
        raise KeyError(kind)
    same_rows(ctx, label, out, exp, cls)
    return out, exp


def observers(ctx, tl, rows, cls):
    names = list(declared(cls))
    item_cls = cls._item_class()
    n = len(rows)
    ctx.check("len", len(tl) == n, note="%d vs %d" % (len(tl), n))
    if len(tl) != n:
        return
    for i in range(-n, n):
        it = tl[i]
        ctx.check("getitem[%d].type" % i, type(it) is item_cls)
        ctx.check("getitem[%d].values" % i, ctx.all(*[cell_same(ctx, getattr(it, k), rows[i][k]) for k in names]))
    for bad in (n, -n - 1):
        try:
            tl[bad]
            ctx.check("getitem[%d].raises-IndexError" % bad, False, note="no exception")
        except IndexError:
            ctx.check("getitem[%d].raises-IndexError" % bad, True)
    for s in [(0, 1), (1, None), (None, -1), (None, None, -1), (0, None, 2), (-1, None)]:
        same_rows(ctx, "slice%s" % (s,), tl[slice(*s)], rows[slice(*s)], cls)
    its = list(tl)
    ctx.check("iter.len", len(its) == n)
    if len(its) == n:
        ctx.check("iter.types", all(type(x) is item_cls for x in its))
        ctx.check("iter.values", ctx.all(*[cell_same(ctx, getattr(x, k), r[k]) for x, r in zip(its, rows) for k in names]))
    ctx.check("offset-column", ctx.all(*[cell_same(ctx, a, r["offset"]) for a, r in zip(col(tl.df, "offset"), rows)]))
    # first / last
    ends = [_key(r, is_hold(cls)) for r in rows]
    starts = [r["offset"] for r in rows]
    fo, lo, flo = tl.first_offset(), tl.last_offset(), tl.first_last_offset()
    if n == 0:
        ctx.check("first_offset.empty-is-None", fo is None, note=repr(fo))
        ctx.check("last_offset.empty-is-None", lo is None, note=repr(lo))
        ctx.check("first_last_offset.empty-is-None-pair", tuple(flo) == (None, None), note=repr(flo))
    else:
        ctx.check("first_offset", ctx.all(ctx.any(*[ctx.eq(fo, s) for s in starts]), *[ctx.le(fo, s) for s in starts]))
        ctx.check("last_offset", ctx.all(ctx.any(*[ctx.eq(lo, e) for e in ends]), *[ctx.ge(lo, e) for e in ends]))
        ctx.check("first_last_offset", ctx.all(ctx.eq(flo[0], fo), ctx.eq(flo[1], lo)))
    if is_hold(cls) and n:
        ctx.check("tail_offset", ctx.all(*[cell_same(ctx, a, r["offset"] + r["length"]) for a, r in zip(list(tl.tail_offset), rows)]))
        ctx.check("head_offset", ctx.all(*[cell_same(ctx, a, r["offset"]) for a, r in zip(list(tl.head_offset), rows)]))


def ob_history(clsname, n, how, history, ctx):
    cls = list_class(clsname)
    rows = mk_rows(ctx, cls, n)
    tl = mk_list(cls, rows, how)
    same_rows(ctx, "build[%s]" % how, tl, rows, cls)
    for i, op in enumerate(history):
        tl, rows = apply_op(ctx, op, i, tl, rows, cls)
    observers(ctx, tl, rows, cls)


def ob_after_other_class(clsname, first, ctx):
    """class-level state: lists of a related class (base classes, or a sibling game's class) are built, indexed and iterated first;
    the list under test must still behave as the sequence of its own rows"""
    import inspect

    cls = list_class(clsname)
    known = {c.__name__: c for c in all_list_classes() if not inspect.isabstract(c)}
    if first == "bases":
        others = [b for b in cls.__mro__[1:] if b.__name__ in known and known[b.__name__] is b]
    else:
        others = [known[first]]
    for k, other in enumerate(reversed(others)):
        rows_o = mk_rows(ctx, other, 1, prefix="o%d_" % k)
        tlo = mk_list(other, rows_o, "items")
        its = list(tlo)
        names_o = list(declared(other))
        ctx.check("earlier-list%d(%s).iter.values" % (k, other.__name__), len(its) == 1 and ctx.all(*[cell_same(ctx, getattr(its[0], n_), rows_o[0][n_]) for n_ in names_o]))
        tlo[0]
    rows = mk_rows(ctx, cls, 2)
    tl = mk_list(cls, rows, "items")
    observers(ctx, tl, rows, cls)


def ob_declared(clsname, ctx):
    """lists built from nothing / a dict / items / empty(n) have exactly the declared fields and defaults."""
    cls = list_class(clsname)
    props = declared(cls)
    names = set(props)
    e = cls([])
    ctx.check("empty-list.columns", set(e.df.columns) == names, note="%s" % list(e.df.columns))
    ctx.check("empty-list.len", len(e) == 0)
    for n in (0, 1, 3):
        tl = cls.empty(n)
        ctx.check("empty(%d).type" % n, type(tl) is cls)
        ctx.check("empty(%d).len" % n, len(tl) == n, note="len %d" % len(tl))
        ctx.check(_colfacet("empty(%d)" % n, tl.df.columns, names), set(tl.df.columns) == names, note="%s vs declared %s" % (sorted(map(str, tl.df.columns)), sorted(names)))
        for k, (_t, dflt) in props.items():
            if k in tl.df.columns:
                cells = col(tl.df, k)
                ctx.check("empty(%d).default[%s]" % (n, k), all(cell_same(ctx, c, dflt) for c in cells), note="%r vs default %r" % (cells[:2], dflt))
    t = ctx.reals("t", 2)
    # from a dict that names only the offsets: every other declared field is present with its default
    for form, d in (("dict-of-lists", dict(offset=[t[0], t[1]])), ("list-of-dicts", [dict(offset=t[0]), dict(offset=t[1])])):
        tl = cls.from_dict(d)
        ctx.check("from_dict[%s].type" % form, type(tl) is cls)
        ctx.check("from_dict[%s].columns" % form, set(tl.df.columns) == names, note="%s" % list(tl.df.columns))
        ctx.check("from_dict[%s].len" % form, len(tl) == 2)
        if len(tl) == 2 and set(tl.df.columns) == names:
            ctx.check("from_dict[%s].offsets" % form, ctx.all(*[cell_same(ctx, a, b) for a, b in zip(col(tl.df, "offset"), t)]))
            for k, (_t, dflt) in props.items():
                if k != "offset":
                    ctx.check("from_dict[%s].default[%s]" % (form, k), all(cell_same(ctx, c, dflt) for c in col(tl.df, k)), note="%r" % (col(tl.df, k),))
    # dict values that are pandas Series carrying the row labels of an earlier filter (gaps, not 0..n-1)
    src = cls.from_dict(dict(offset=[t[0], t[1], t[0] + 1]))
    part = src[[False, True, True]]
    tl = cls.from_dict(dict(offset=part.offset))
    ctx.check("from_dict[series-with-gapped-labels].len", len(tl) == 2, note="%d" % len(tl))
    if len(tl) == 2 and set(tl.df.columns) == names:
        ctx.check("from_dict[series-with-gapped-labels].offsets", ctx.all(*[cell_same(ctx, a, b) for a, b in zip(col(tl.df, "offset"), [t[1], t[0] + 1])]))
        for k, (_t, dflt) in props.items():
            if k != "offset":
                ctx.check("from_dict[series-with-gapped-labels].default[%s]" % k, all(cell_same(ctx, c, dflt) for c in col(tl.df, k)), note="%r" % (col(tl.df, k),))
    ctx.check("from_dict[empty].len", len(cls.from_dict({})) == 0 and set(cls.from_dict([]).df.columns) == names)
    try:
        cls.from_dict(dict(offset=[1.0], not_a_field=[2]))
        ctx.check("from_dict[unknown-field].rejected", False)
    except ValueError:
        ctx.check("from_dict[unknown-field].rejected", True)
    # a single item, and a list of items
    rows = mk_rows(ctx, cls, 2)
    item = cls._item_class()
    one = cls(item(**rows[0]))
    same_rows(ctx, "from-single-item", one, rows[:1], cls)
    same_rows(ctx, "from-items", cls([item(**r) for r in rows]), rows, cls)
    same_rows(ctx, "from-list", cls(cls([item(**r) for r in rows])), rows, cls)
    # an item built from a row carries that row's values and only declared fields
    s = pd.Series(dict(rows[1], junk=1))
    it = item.from_series(s)
    ctx.check("from_series.values", ctx.all(*[cell_same(ctx, getattr(it, k), rows[1][k]) for k in names]))
    ctx.check("from_series.drops-undeclared", "junk" not in it.data.index)


# ---------------------------------------------------------------------------------------------
BASIC_OPS = [
    ("after", False), ("after", True), ("before", False), ("before", True),
    ("between", (True, False)), ("between", (False, True)), ("between", (True, True)), ("between", (False, False)),
    ("between_default",), ("sorted", None), ("sorted", True), ("append_item", None), ("append_item", True),
    ("append_list", False, 2), ("append_list", True, 1), ("slice", (1, None)), ("slice", (None, None, -1)), ("mask", (0, 1)), ("mask_series",),
    ("deepcopy",),
]
BOOL_BETWEEN = [("between", True), ("between", False)]  # a bare bool is accepted by TimedList.between only
HOLD_OPS = [
    ("after", False, (("include_tail", True),)), ("after", True, (("include_tail", True),)),
    ("before", False, (("include_head", False),)), ("before", True, (("include_head", False),)),
    ("between", (True, False), (("include_head", False), ("include_tail", True))),
    ("between", (True, True), (("include_head", True), ("include_tail", True))),
    ("between", (False, False), (("include_head", False), ("include_tail", False))),
]
PAIR_OPS = [("after", True), ("before", False), ("sorted", True), ("sorted", None), ("append_item", None), ("slice", (1, None)),
            ("mask", (0, 1)), ("between", (True, True))]


def _opname(op):
    def s(x):
        if isinstance(x, tuple):
            return "(" + ",".join(s(y) for y in x) + ")"
        return str(x)

    return op[0] + "".join("," + s(x) for x in op[1:])


def obligations(tier, seed):
    from symx import hook  # noqa: F401

    quick = tier == "quick"
    obs = []
    import inspect

    names = [c.__name__ for c in all_list_classes() if not inspect.isabstract(c)]
    for cn in names:
        cls = list_class(cn)
        obs.append(Obligation("C16/declared/%s" % cn, partial(ob_declared, cn), bound="class %s: [], empty(0|1|3), from_dict (2 rows, symbolic offsets), items" % cn))
        ops = list(BASIC_OPS) + (HOLD_OPS if is_hold(cls) else BOOL_BETWEEN)
        sizes = (2,) if quick else (0, 1, 2, 3)
        for n in sizes:
            for op in ops:
                if quick and n == 2 and cn not in ("TimedList", "HoldList", "OsuHoldList", "QuaHitList", "SMBpmList", "BMSHitList", "O2JHoldList") \
                        and op[0] in ("between", "slice", "mask", "append_list") and op not in HOLD_OPS:
                    continue
                obs.append(Obligation("C16/op/%s/n%d/%s" % (cn, n, _opname(op)), partial(ob_history, cn, n, "items", [op]),
                                      bound="%s with %d rows (symbolic offsets/lengths), one operation, all observers" % (cn, n), max_paths=3000, timeout_s=150))
        if quick:
            for op in (("append_list", True, 2), ("append_list", False, 2), ("append_item", True), ("sorted", None), ("after", True)):
                obs.append(Obligation("C16/op/%s/n0/%s" % (cn, _opname(op)), partial(ob_history, cn, 0, "items", [op]),
                                      bound="%s empty, one operation, all observers" % cn))
        obs.append(Obligation("C16/op/%s/n0/observers" % cn, partial(ob_history, cn, 0, "items", []), bound="%s empty, all observers" % cn))
        obs.append(Obligation("C16/op/%s/n2/build-df" % cn, partial(ob_history, cn, 2, "df", [("sorted", None)]), bound="%s built from a DataFrame" % cn))
        obs.append(Obligation("C16/op/%s/n2/build-dict" % cn, partial(ob_history, cn, 2, "dict", [("after", True)]), bound="%s built by from_dict" % cn))
    for cn in names:
        cls = list_class(cn)
        firsts = ["bases"] + [o for o in ("OsuHitList", "QuaHoldList", "SMBpmList") if o != cn and (not quick or o == "OsuHitList")]
        for first in firsts:
            if first == "bases" and not any(b.__name__ in names for b in cls.__mro__[1:]):
                continue
            obs.append(Obligation("C16/after-other-class/%s/first=%s" % (cn, first), partial(ob_after_other_class, cn, first),
                                  bound="%s (2 rows) observed after lists of %s were built, indexed and iterated in the same interpreter" % (cn, "its non-abstract base classes" if first == "bases" else first)))
    pair_classes = ["TimedList", "OsuHoldList"] if quick else ["TimedList", "HoldList", "OsuHoldList", "QuaHitList", "SMBpmList", "BMSHoldList", "O2JHitList", "OsuSvList"]
    for cn in pair_classes:
        cls = list_class(cn)
        ops = PAIR_OPS + ([HOLD_OPS[0], HOLD_OPS[4]] if is_hold(cls) else [])
        for a, b in itertools.product(ops, ops):
            obs.append(Obligation("C16/hist2/%s/%s/%s" % (cn, _opname(a), _opname(b)), partial(ob_history, cn, 2, "items", [a, b]),
                                  bound="%s with 2 rows, history of 2 operations, all observers" % cn, max_paths=4000, timeout_s=200))
    if not quick:
        for cn in ("TimedList", "OsuHoldList"):
            cls = list_class(cn)
            ops3 = [("after", True), ("sorted", True), ("append_item", None), ("slice", (1, None)), ("mask", (0, 1))]
            for h in itertools.product(ops3, repeat=3):
                obs.append(Obligation("C16/hist3/%s/%s" % (cn, "/".join(_opname(o) for o in h)), partial(ob_history, cn, 3, "items", list(h)),
                                      bound="%s with 3 rows, history of 3 operations" % cn, max_paths=6000, timeout_s=400))
    return obs
