"""C04 - BMS reading places every object at the time its measure position and tempo imply."""
from __future__ import annotations

import itertools
from fractions import Fraction as F
from functools import partial

from symx.run import Obligation
from symx.core import SymNum, isna
from oracles import bms as ref
from .common import col, cell_same, same_multiset

LAYOUTS = ["BMS", "BME", "PMS", "PMS_BME", "PMS_5B"]


def layout(name):
    from reamber.bms.BMSChannel import BMSChannel

    return getattr(BMSChannel, name)


def ref_layout(name):
    """the standard layout as the reference knows it (independent of the library's table)"""
    return ref.ref_layout(name)


def lane_channels(name):
    lay = ref_layout(name)
    return sorted([(c, ch.decode()) for ch, c in lay.items() if isinstance(c, int)])


def data(div, placed):
    """placed: {slot: id}"""
    return "".join(placed.get(i, "00") for i in range(div))


def build(ctx, lay, note_lines, tempo_lines, order=None, lnobj="ZZ", extra_header=()):
    """note_lines: [(measure, lane index, div, {slot: id})]; tempo_lines: [(measure, '03'|'08', div, {slot: id})]"""
    tk = ctx.tok
    L = {}

    def bpm(name):
        if name not in L:
            x = ctx.real("L_" + name)
            ctx.assume(x > 0)
            L[name] = x
        return 60000 / L[name]

    head = ["#PLAYER 1", "#GENRE gen re", "#TITLE The Title", "#ARTIST some one", "#BPM %s" % tk(bpm("0")), "#PLAYLEVEL 12", "#RANK 3", "#TOTAL 300", "#STAGEFILE st.png"]
    if lnobj:
        head.append("#LNOBJ %s" % lnobj)
    head += ["#WAV01 kick.wav", "#WAV02 sn are.wav", "#WAV0Z z.ogg", "#WAVaa low.wav", "#WAVAA UP.wav"]
    ids = sorted({v for _m, ch, _d, pl in tempo_lines if ch == "08" for v in pl.values()})
    for i in ids:
        head.append("#BPM%s %s" % (i, tk(bpm(i))))
    head += list(extra_header)
    lanes = lane_channels(lay)
    body = []
    for meas, lane, div, placed in note_lines:
        body.append("#%03d%s:%s" % (meas, lanes[lane][1], data(div, placed)))
    for meas, ch, div, placed in tempo_lines:
        body.append("#%03d%s:%s" % (meas, ch, data(div, placed)))
    if order is not None:
        body = [body[i] for i in order]
    return head + ["", "*---------------------- MAIN DATA FIELD", ""] + body, L


def lib_rows(m):
    h, l = m.hits.df, m.holds.df
    hits = list(zip(col(h, "column"), col(h, "offset"), col(h, "sample"))) if len(h) else []
    holds = list(zip(col(l, "column"), col(l, "offset"), col(l, "length"), col(l, "sample"))) if len(l) else []
    return hits, holds


def ref_rows(ctx, d):
    hits = [(o["col"], ref.ms_of(ctx, d, o["pos"]), o["sample"]) for o in d["hits"]]
    holds = [(o["col"], ref.ms_of(ctx, d, o["pos"]), ref.ms_of(ctx, d, o["end"]) - ref.ms_of(ctx, d, o["pos"]), o["sample"]) for o in d["holds"]]
    return hits, holds


def _eq_rel(ctx, rel_=None):
    """times are non-negative sums of positive beat lengths; a tempo given as a concrete number (channel 03) makes the code
    compute in doubles, so times are compared up to 1e-9 relative"""
    from fractions import Fraction

    rel = Fraction(1, 10**9) if rel_ is None else rel_

    def eq(a, b):
        if a[0] != b[0] or a[-1] != b[-1]:
            return False
        conds = [ctx.within(a[1], b[1], (a[1] + b[1] + 1) * rel, strict=False)]
        if len(a) == 4:
            conds.append(ctx.within(a[1] + a[2], b[1] + b[2], (a[1] + a[2] + b[1] + b[2] + 1) * rel, strict=False))
        return ctx.all(*conds)

    return eq, rel


def check_read(ctx, label, m, d):
    (lh, ll), (rh, rl) = lib_rows(m), ref_rows(ctx, d)
    eq, rel = _eq_rel(ctx)
    ctx.check(label + ".hits.count", len(lh) == len(rh), note="%d vs %d" % (len(lh), len(rh)))
    ctx.check(label + ".holds.count", len(ll) == len(rl), note="%d vs %d" % (len(ll), len(rl)))
    ctx.check(label + ".hits.lane-time-sample", same_multiset(ctx, lh, rh, eq=eq), note="%r vs %r" % (lh[:3], rh[:3]))
    ctx.check(label + ".holds.lane-time-length-sample", same_multiset(ctx, ll, rl, eq=eq), note="%r vs %r" % (ll[:3], rl[:3]))
    # twin facets with a coarse tolerance (0.01 %): their solver counterexamples survive the float replay
    loose, _r = _eq_rel(ctx, F(1, 10**4))
    ctx.check(label + ".hits.lane-time-sample{within-0.01%}", same_multiset(ctx, lh, rh, eq=loose))
    ctx.check(label + ".holds.lane-time-length-sample{within-0.01%}", same_multiset(ctx, ll, rl, eq=loose))
    for i, r in enumerate(lh):
        ctx.observe("hit%d.t" % i, r[1])
    bt = col(m.bpms.df, "offset")
    prev = d["bpm0"]
    for j, (pos, v) in enumerate(d["tempo"]):
        t = ref.ms_of(ctx, d, pos)
        # (an event that repeats the tempo already active is not a change: it may be absent)
        ctx.check("%s.tempo-event%d.is-a-tempo-point" % (label, j), ctx.any(ctx.eq(v, prev), *[ctx.within(x, t, (x + t + 1) * rel, strict=False) for x in bt]))
        prev = v
    ctx.check(label + ".tempo.starts-at-0", ctx.any(*[ctx.eq(x, 0) for x in bt]))
    # the tempo in force from a change on is the file's, wherever at least one whole measure follows before the next change
    # (the tempo list is seated on measure lines: a change followed by less than a measure has its bpm stretched by design)
    bv = col(m.bpms.df, "bpm")
    segs = [(F(0), d["bpm0"])]
    for pos, v in d["tempo"]:
        if pos == segs[-1][0]:
            segs[-1] = (pos, v)
        else:
            segs.append((pos, v))
    for j, (pos, v) in enumerate(segs):
        if j + 1 < len(segs) and segs[j + 1][0] - pos < 4:
            continue
        t = ref.ms_of(ctx, d, pos)
        ctx.check("%s.tempo-in-force-from-position-%s" % (label, str(pos).replace("/", "_")),
                  ctx.any(*([ctx.eq(v, segs[j - 1][1])] if j else []),  # (a change that repeats the tempo in force may be absent)
                          *[ctx.all(ctx.within(x, t, (x + t + 1) * rel, strict=False), ctx.close(y, v) if not isinstance(v, int) else ctx.eq(y, v)) for x, y in zip(bt, bv)]),
                  note="bpm %r expected at position %s" % (ctx.value(v), pos))
    # the tempo active at every object is the file's
    bpms = sorted(zip(bt, col(m.bpms.df, "bpm")), key=lambda p: 0) if False else list(zip(bt, col(m.bpms.df, "bpm")))
    h = d["header"]
    ctx.check(label + ".header.title", m.title == h.get(b"TITLE"), note="%r" % (m.title,))
    ctx.check(label + ".header.artist", m.artist == h.get(b"ARTIST"), note="%r" % (m.artist,))
    ctx.check(label + ".header.level", m.version == h.get(b"PLAYLEVEL"), note="%r" % (m.version,))
    ctx.check(label + ".header.lnobj", m.ln_end_channel == h.get(b"LNOBJ", b""), note="%r" % (m.ln_end_channel,))
    ctx.check(label + ".header.wav-table", dict(m.samples) == dict(d["wav"]), note="%r" % (m.samples,))
    ctx.check(label + ".header.extended-tempos", set(m.exbpms) == set(d["exbpm"]) and ctx.all(*[ctx.eq(m.exbpms[k], d["exbpm"][k]) for k in d["exbpm"] if k in m.exbpms]))
    others = {k: v for k, v in h.items() if k not in (b"TITLE", b"ARTIST", b"PLAYLEVEL", b"LNOBJ", b"BPM")}
    got = {k.upper(): v for k, v in m.misc.items() if k.upper() != b"LNOBJ"}
    ctx.check(label + ".header.other-headers", all(got.get(k) == v for k, v in others.items()), note="%r vs %r" % (got, others))


def ob_read(lay, note_lines, tempo_lines, order, ctx, lnobj="ZZ", extra_header=()):
    from reamber.bms import BMSMap

    lines, L = build(ctx, lay, note_lines, tempo_lines, order=order, lnobj=lnobj, extra_header=extra_header)
    m = BMSMap.read(lines, note_channel_config=layout(lay))
    d = ref.parse(ctx, lines, ref_layout(lay))
    ctx.check("reference.well-formed-input", not d["ill_formed"], note="%r" % d["ill_formed"][:2])
    check_read(ctx, "read", m, d)


# ---------------------------------------------------------------------------------------------
def note_sets(nl):
    """note line sets for a layout with nl lanes"""
    a, b = 0, nl - 1
    S = {}
    S["hits"] = [(0, a, 4, {0: "01", 2: "02"}), (1, b, 8, {3: "0Z", 7: "01"})]
    S["ln-in-line"] = [(0, a, 4, {0: "01", 3: "ZZ"}), (0, b, 2, {1: "02"})]
    S["ln-across-lines"] = [(1, a, 4, {2: "01"}), (1, a, 8, {7: "ZZ"}), (1, b, 1, {0: "01"})]
    S["ln-across-measures"] = [(0, a, 4, {3: "02"}), (2, a, 3, {1: "ZZ"}), (1, b, 16, {5: "01"})]
    S["ln-then-hit"] = [(0, a, 8, {0: "01", 2: "ZZ", 4: "02", 5: "01", 7: "ZZ"})]
    S["two-lines-same-measure"] = [(2, a, 4, {0: "01"}), (2, a, 3, {1: "02", 2: "01"}), (2, b, 48, {1: "01", 47: "0Z"})]
    S["unknown-wav"] = [(0, a, 2, {0: "0A", 1: "01"})]
    S["fine-grid"] = [(0, a, 512, {1: "01", 511: "02"}), (1, b, 101, {3: "01", 100: "ZZ"}), (1, a, 1000, {999: "0Z"})]
    S["lower-case-ids"] = [(0, a, 4, {0: "aa", 1: "AA", 2: "01"}), (1, b, 2, {0: "aa", 1: "ZZ"})]
    S["every-lane"] = [(0, i, 4, {i % 4: "01"}) for i in range(nl)]
    return S


TEMPO_SETS = {
    "none": [],
    "ext-measure-line": [(1, "08", 1, {0: "01"})],
    "ext-mid": [(0, "08", 4, {3: "01"})],
    "int+ext": [(0, "03", 2, {1: "78"}), (2, "08", 3, {1: "02"})],
    "two-in-line": [(1, "08", 8, {1: "01", 6: "02"})],
    "at-zero": [(0, "08", 1, {0: "01"})],
    "48th": [(1, "08", 48, {1: "01"})],
    "lower-case-id": [(1, "08", 2, {1: "a1"}), (2, "08", 4, {1: "A1"})],
    "later-listed-before-at-zero": [(2, "08", 3, {1: "02"}), (0, "08", 1, {0: "01"})],
    "96th-beat": [(0, "08", 384, {5: "01"}), (1, "03", 32, {27: "5A"})],
    # tempo changes off the snapper's grid (fractions of a beat with denominator <= 96): repaired defect 8457d97
    "incommensurate-changes": [(0, "08", 384, {5: "01"}), (1, "03", 28, {27: "5A"})],
    "off-farey96-grid": [(0, "08", 512, {3: "01"}), (1, "03", 101, {100: "5A"})],
}


def random_file(rng):
    """a generated BMS body: objects on distinct positions per lane, LNOBJ ends after an object of the lane, 0-3 tempo events on
    any subdivision, data lines in random file order"""
    lay = rng.choice(LAYOUTS)
    nl = len(lane_channels(lay))
    divs = (1, 2, 3, 4, 6, 8, 12, 16, 24, 32, 48, 64, 96, 192)
    note_lines = []
    for lane in rng.sample(range(nl), rng.randint(1, min(nl, 4))):
        cells = set()
        while len(cells) < rng.randint(1, 5):
            d = rng.choice(divs)
            cells.add((rng.randint(0, 4), F(rng.randrange(d), d)))
        cells = sorted(cells)
        ids = []
        for i in range(len(cells)):
            if i and ids[-1] != "ZZ" and rng.random() < 0.35:
                ids.append("ZZ")
            else:
                ids.append(rng.choice(("01", "02", "0Z", "0A")))
        # spread the lane's objects over lines: objects of one measure go to one or two lines of suitable division
        for m in sorted({c[0] for c in cells}):
            here = [(f, i_) for (mm, f), i_ in zip(cells, ids) if mm == m]
            groups = [here] if len(here) < 2 or rng.random() < 0.5 else [here[::2], here[1::2]]
            for g in groups:
                den = 1
                for f, _i in g:
                    den = den * f.denominator // __import__("math").gcd(den, f.denominator)
                den *= rng.choice((1, 1, 2))
                note_lines.append((m, lane, den, {int(f * den): i_ for f, i_ in g}))
    tempo_lines = []
    used = set()
    ex = iter(("01", "02", "0A"))
    for _ in range(rng.randint(0, 3)):
        d = rng.choice((1, 2, 4, 8, 16) + divs)
        m, slot = rng.randint(0, 4), rng.randrange(d)
        if (m, F(slot, d)) in used:
            continue
        used.add((m, F(slot, d)))
        if rng.random() < 0.5:
            tempo_lines.append((m, "03", d, {slot: rng.choice(("3C", "78", "B4", "FF", "01"))}))
        else:
            tempo_lines.append((m, "08", d, {slot: next(ex)}))
    n = len(note_lines) + len(tempo_lines)
    order = list(range(n))
    rng.shuffle(order)
    return lay, note_lines, tempo_lines, tuple(order)


def obligations(tier, seed):
    quick = tier == "quick"
    obs = []
    for lay in LAYOUTS:
        nl = len(lane_channels(lay))
        S = note_sets(nl)
        for ni, (nname, nlines) in enumerate(S.items()):
            for ti, (tname, tlines) in enumerate(TEMPO_SETS.items()):
                special_t = ("lower-case-id", "later-listed-before-at-zero", "96th-beat", "incommensurate-changes", "off-farey96-grid")
                if quick and not ((ni + ti + len(lay)) % 5 == 0
                                  or (lay in ("BME", "PMS") and ((nname in ("fine-grid", "lower-case-ids") and tname in ("none", "ext-mid") + special_t)
                                                                 or (tname in special_t and nname in ("hits", "ln-across-measures", "every-lane"))))
                                  or (lay == "BME" and tname in ("none", "ext-mid", "int+ext")) or (nname == "every-lane" and tname == "ext-measure-line")):
                    continue
                n = len(nlines) + len(tlines)
                orders = [None, tuple(reversed(range(n)))]
                if not quick and n <= 4:
                    orders = [None] + [p for p in itertools.permutations(range(n)) if list(p) != list(range(n))]
                elif n > 1:
                    orders.append(tuple(list(range(1, n)) + [0]))
                for oi, order in enumerate(orders):
                    if quick and oi == 2 and (ni + ti) % 2:
                        continue
                    obs.append(Obligation("C04/read/%s/%s/tempo=%s/order%d" % (lay, nname, tname, oi), partial(ob_read, lay, nlines, tlines, order),
                                          bound="layout %s; note lines %s; tempo lines %s (symbolic #BPM and #BPMxx values); data lines in order %s" % (lay, nlines, tlines, order)))
    for lay in (("BME",) if quick else LAYOUTS):
        S = note_sets(len(lane_channels(lay)))
        for nname in ("ln-in-line", "ln-across-measures", "ln-then-hit"):
            obs.append(Obligation("C04/read/%s/%s/lnobj-id-has-a-wav" % (lay, nname), partial(ob_read, lay, S[nname], TEMPO_SETS["ext-mid"], None, extra_header=("#WAVZZ lnend.wav",)),
                                  bound="layout %s; note lines %s; the #LNOBJ id also has a #WAV definition" % (lay, S[nname])))
    import random

    rng = random.Random(4000 + seed)
    for k in range(8 if quick else 400):
        lay, nlines, tlines, order = random_file(rng)
        obs.append(Obligation("C04/read/generated%d" % k, partial(ob_read, lay, nlines, tlines, order),
                              bound="generated BMS (seed %d): layout %s; note lines %s; tempo lines %s; file order %s" % (seed, lay, nlines, tlines, order)))
    obs.append(Obligation("C04/read/BME/no-lnobj", partial(ob_read, "BME", note_sets(8)["hits"], TEMPO_SETS["ext-mid"], None, lnobj=""), bound="file without #LNOBJ"))
    return obs
