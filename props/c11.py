"""C11 - Reseating tempo changes onto measure lines keeps every change at its time."""
from __future__ import annotations

import itertools
from fractions import Fraction as F
from functools import partial

from symx.run import Obligation
from symx.core import SymNum
from .c10 import _tm, _bpm


def _times(positions, metros, Ls, off):
    """un-reseated integration: ms of every original change; positions are absolute beats from the first change."""
    ts = [off]
    for j in range(1, len(positions)):
        ts.append(ts[-1] + (positions[j] - positions[j - 1]) * Ls[j - 1])
    return ts


def _snap_of(pos, M):
    """(measure, beat) of an absolute beat position when every measure so far has M beats (single metronome lists)."""
    m = pos // M
    return int(m), pos - m * M


def _seated_times(ctx, res, off):
    """ms of every change of a reseated list (all on measure lines): measures between two changes have the earlier one's length."""
    ts = [off]
    for a, b in zip(res, res[1:]):
        ts.append(ts[-1] + (b.snap.measure - a.snap.measure) * a.metronome * (60000 / a.bpm))
    return ts


def _same_tempo_timeline(ctx, A, B):
    """A, B: [(time, change)] in time order.  Same timeline = at the time of every point of either list the same bpm and
    metronome are in force in both (a point that repeats what is in force is allowed: in doubles a re-seated list may gain one)."""
    def at(L, x):
        cur = L[0][1]
        for t, c in L:
            if bool(ctx.le(t, x)):
                cur = c
        return cur

    if not A or not B or not ctx.eq(A[0][0], B[0][0]):
        return False
    conds = []
    for x, _c in A + B:
        a, b = at(A, x), at(B, x)
        conds.append(ctx.all(ctx.eq(a.bpm, b.bpm), a.metronome == b.metronome))
    return ctx.all(*conds)


def _check_reseat(ctx, label, res, orig_times, orig_L, off, positions, M, seated_already=False):
    ctx.check(label + ".every-change-on-a-measure-line", ctx.all(*[ctx.eq(r.snap.beat, 0) for r in res]))
    ctx.check(label + ".measures-nondecreasing", ctx.all(*[ctx.le(a.snap.measure, b.snap.measure) for a, b in zip(res, res[1:])]))
    ctx.check(label + ".first-at-measure-0", ctx.eq(res[0].snap.measure, 0))
    rt = _seated_times(ctx, res, off)
    for j, t in enumerate(orig_times):
        ctx.check("%s.original%d.still-a-tempo-point" % (label, j), ctx.any(*[ctx.eq(x, t) for x in rt]), note="original change %d" % j)
    # at most one extra point per original interval
    n_extra = len(res) - len(orig_times)
    ctx.check(label + ".at-most-one-insert-per-interval", 0 <= n_extra <= max(0, len(orig_times) - 1), note="%d original, %d returned" % (len(orig_times), len(res)))
    # the bpm active from each original change on is the original bpm at least where a whole number of measures follows
    for j, t in enumerate(orig_times):
        whole = j + 1 == len(orig_times) or ((positions[j + 1] - positions[j]) / M).denominator == 1
        if not whole:
            continue
        hit = []
        for r, x in zip(res, rt):
            hit.append(ctx.all(ctx.eq(x, t), ctx.eq(r.bpm * orig_L[j], 60000)))
        ctx.check("%s.original%d.keeps-its-bpm" % (label, j), ctx.any(*hit))
    for i, x in enumerate(rt):
        ctx.observe("%s.t%d" % (label, i), x)


def ob_reseat_grid(positions, M, ctx, entry="static"):
    """positions: absolute beats of the changes (first 0), one metronome M; symbolic beat lengths and offset."""
    TimingMap, BCS, BCO, Snap, Snapper = _tm()
    n = len(positions)
    Ls = ctx.reals("L", n)
    for L in Ls:
        ctx.assume(L > 0)
    off = ctx.real("off")
    bcs = []
    for p, L in zip(positions, Ls):
        m, b = _snap_of(F(p), M)
        bcs.append(BCS(_bpm(L), M, Snap(m, b, M)))
    ts = _times([F(p) for p in positions], [M] * n, Ls, off)
    before = [(x.bpm, x.metronome, x.snap.measure, x.snap.beat) for x in bcs]
    if entry == "static":
        res = TimingMap.reseat_bpm_changes_snap(bcs)
    elif entry == "from_snap":
        tm = TimingMap.from_bpm_changes_snap(off, bcs, reseat=True)
        after = [(x.bpm, x.metronome, x.snap.measure, x.snap.beat) for x in bcs]
        ctx.check("input-list.untouched", all(all(p is q or (not isinstance(p, SymNum) and p == q) for p, q in zip(a, b)) for a, b in zip(before, after)))
        got = [c.offset for c in tm.bpm_changes_offset]
        for j, t in enumerate(ts):
            ctx.check("from_snap.original%d.still-a-tempo-point" % j, ctx.any(*[ctx.eq(x, t) for x in got]))
        ctx.check("from_snap.starts-at-initial-offset", ctx.eq(got[0], off))
        res = tm.bpm_changes_snap()
        ctx.check("from_snap.every-change-on-a-measure-line", ctx.all(*[ctx.eq(r.snap.beat, 0) for r in res]))
        return
    else:  # TimingMap.reseat() on an un-reseated map
        tm0 = TimingMap.from_bpm_changes_snap(off, bcs, reseat=False)
        tm = tm0.reseat()
        got = [c.offset for c in tm.bpm_changes_offset]
        for j, t in enumerate(ts):
            ctx.check("reseat().original%d.still-a-tempo-point" % j, ctx.any(*[ctx.eq(x, t) for x in got]))
        res = tm.bpm_changes_snap()
        ctx.check("reseat().every-change-on-a-measure-line", ctx.all(*[ctx.eq(r.snap.beat, 0) for r in res]))
        return
    after = [(x.bpm, x.metronome, x.snap.measure, x.snap.beat) for x in bcs]
    ctx.check("input-list.untouched", all(all(p is q or (not isinstance(p, SymNum) and p == q) for p, q in zip(a, b)) for a, b in zip(before, after)))
    _check_reseat(ctx, "reseat", res, ts, Ls, off, [F(p) for p in positions], M)
    # reseating the seated list again leaves the timeline (which bpm from which time) unchanged
    res2 = TimingMap.reseat_bpm_changes_snap(res)
    t1, t2 = _seated_times(ctx, res, off), _seated_times(ctx, res2, off)
    ctx.check("reseat-again.same-timeline", _same_tempo_timeline(ctx, list(zip(t1, res)), list(zip(t2, res2))), note="%d -> %d points" % (len(res), len(res2)))


def ob_reseat_mixed(changes, ctx, entry="static"):
    """changes: [(measure, beat, metronome)] with different metronomes; the beats between two changes are counted with the earlier
    change's metronome (as TimingMap does).  entry 'offsets-reseat()' builds the map from millisecond offsets and reseats it."""
    from .c10 import _abs_beats

    TimingMap, BCS, BCO, Snap, Snapper = _tm()
    n = len(changes)
    Ls = ctx.reals("L", n)
    for L in Ls:
        ctx.assume(L > 0)
    off = ctx.real("off")
    pos = _abs_beats(changes)
    ts = _times(pos, None, Ls, off)
    if entry == "static":
        bcs = []
        for j, ((m, b, M), L) in enumerate(zip(changes, Ls)):
            sn = Snap(m, F(b), changes[j - 1][2] if j else M)  # the beat counts inside a measure of the previous change
            sn.metronome = M
            bcs.append(BCS(_bpm(L), M, sn))
        res = TimingMap.reseat_bpm_changes_snap(bcs)
    else:
        tm = TimingMap.from_bpm_changes_offset([BCO(_bpm(L), M, t) for (m, b, M), L, t in zip(changes, Ls, ts)]).reseat()
        got = [c.offset for c in tm.bpm_changes_offset]
        for j, t in enumerate(ts):
            ctx.check("offsets-reseat().original%d.still-a-tempo-point" % j, ctx.any(*[ctx.eq(x, t) for x in got]), note="original change %d" % j)
        res = tm.bpm_changes_snap()
    ctx.check("reseat.every-change-on-a-measure-line", ctx.all(*[ctx.eq(r.snap.beat, 0) for r in res]))
    rt = _seated_times(ctx, res, off)
    for j, t in enumerate(ts):
        ctx.check("reseat.original%d.still-a-tempo-point" % j, ctx.any(*[ctx.eq(x, t) for x in rt]), note="original change %d" % j)
    ctx.check("reseat.at-most-one-insert-per-interval", 0 <= len(res) - n <= n - 1, note="%d original, %d returned" % (n, len(res)))
    for j, t in enumerate(ts):
        whole = j + 1 == n or ((pos[j + 1] - pos[j]) / changes[j][2]).denominator == 1
        if whole:
            ctx.check("reseat.original%d.keeps-its-bpm-and-metronome" % j, ctx.any(*[ctx.all(ctx.eq(x, t), ctx.eq(r.bpm * Ls[j], 60000), r.metronome == changes[j][2]) for r, x in zip(res, rt)]))
    res2 = TimingMap.reseat_bpm_changes_snap(res)
    t1, t2 = _seated_times(ctx, res, off), _seated_times(ctx, res2, off)
    ctx.check("reseat-again.same-timeline", _same_tempo_timeline(ctx, list(zip(t1, res)), list(zip(t2, res2))), note="%d -> %d points" % (len(res), len(res2)))


def ob_bms_read_seated(tname, ctx):
    """reseat on read: the tempo list of a BMS chart read from a file with mid-measure tempo changes (and no channel-02 line) lies on
    measure lines: consecutive tempo points are a whole number of the earlier point's measures apart"""
    from reamber.bms import BMSMap
    from . import c04

    lines, L = c04.build(ctx, "BME", c04.note_sets(8)["hits"], c04.TEMPO_SETS[tname])
    m = BMSMap.read(lines, note_channel_config=c04.layout("BME"))
    df = m.bpms.df
    pts = sorted(zip(list(df["offset"]), list(df["bpm"]), list(df["metronome"])), key=lambda p: 0)
    ts = [p[0] for p in pts]
    ctx.check("bms-read.tempo-points-in-time-order", ctx.all(*[ctx.le(a, b) for a, b in zip(ts, ts[1:])]))
    for i, ((t0, bpm0, M0), (t1, _b, _M)) in enumerate(zip(pts, pts[1:])):
        ratio = (t1 - t0) * bpm0 / (60000 * M0)
        c = ratio.const() if isinstance(ratio, SymNum) else F(ratio).limit_denominator(10**6)
        ctx.check("bms-read.tempo-point%d.whole-measures-after-its-predecessor" % (i + 1), c is not None and F(c).denominator == 1, note="%r measures" % (ctx.value(ratio),))


MIXED_SETS = [
    [(0, 0, 4), (1, 2, 3), (4, 0, 3)],
    [(0, 0, 4), (2, 1, 3)],
    [(0, 0, 3), (1, 1, 4), (3, 2, 4)],
    [(0, 0, 6), (0, 4, 3), (2, 0, 3)],
    [(0, 0, 6), (1, 4, 3)],
    [(0, 0, 5), (1, 0, 4), (1, F(5, 2), 3), (3, 0, 3)],
    [(0, 0, 4), (0, 2, 7), (1, 3, 2)],
]


def ob_reseat_free(L0, lo, hi, M, ctx, lead=None):
    """second change at a free symbolic beat position p in [lo, hi) (concrete first tempo): walks the extend branches."""
    TimingMap, BCS, BCO, Snap, Snapper = _tm()
    p = ctx.real("p")
    ctx.assume(p >= lo)
    ctx.assume(p < hi)
    L1 = ctx.real("L1")
    ctx.assume(L1 > 0)
    off = ctx.real("off")
    m = p // M if isinstance(p, SymNum) else F(p) // M
    if lead is not None:
        # a change at measure `lead` (concrete tempo) comes first; the free change follows it by p beats: same analysis, shifted
        bcs = [BCS(F(150), M, Snap(0, 0, M)), BCS(60000 / F(L0), M, Snap(lead, 0, M)), BCS(_bpm(L1), M, Snap(m + lead, p - m * M, M))]
    else:
        bcs = [BCS(60000 / F(L0), M, Snap(0, 0, M)), BCS(_bpm(L1), M, Snap(m, p - m * M, M))]
    # region of the position (decided per path): the two "extend" branches act when the change lies within 0.1 % of a
    # measure / of a beat after a measure line / beat line
    fb = p - (p.floor() if isinstance(p, SymNum) else F(p).__floor__())
    fm = p / M - ((p / M).floor() if isinstance(p / M, SymNum) else (F(p) / M).__floor__())
    region = []
    thr = F(0.001)  # the library's threshold is the double 0.001; the classification uses the same number (exact comparisons)
    if bool(fm > 0) and bool(fm <= thr):
        region.append("within-0.1%-of-a-measure-after-a-measure-line")
        region.append("first-measure" if bool(p < M) else "later-measure")
    elif bool(fb > 0) and bool(fb <= thr):
        region.append("within-0.1%-of-a-beat-after-a-beat-line")
        region.append("first-measure" if bool(p < M) else "later-measure")
    rg = "{%s}" % ",".join(region) if region else ""
    try:
        res = TimingMap.reseat_bpm_changes_snap(bcs)
    except ValueError as e:
        ctx.check("free.no-exception" + rg, False, note="ValueError: %s" % e)
        return
    if lead is not None:
        off = off + lead * M * F(400)  # the times below are those of the last two changes; the seated list starts one change earlier
    t_orig = [off, off + p * F(L0)]
    ctx.check("free.every-change-on-a-measure-line", ctx.all(*[ctx.eq(r.snap.beat, 0) for r in res]))
    rt = _seated_times(ctx, res, off if lead is None else off - lead * M * F(400))
    ctx.check("free.second-change.still-a-tempo-point" + rg, ctx.any(*[ctx.eq(x, t_orig[1]) for x in rt]), note="returned %d changes" % len(res))
    ctx.check("free.first-change.still-a-tempo-point" + rg, ctx.any(*[ctx.eq(x, t_orig[0]) for x in rt]))
    ctx.check("free.at-most-one-insert", len(res) in ((2, 3) if lead is None else (3, 4)), note="%d" % len(res))
    ctx.check("free.second-keeps-its-bpm", ctx.eq(res[-1].bpm * L1, 60000))
    for i, x in enumerate(rt):
        ctx.observe("free.t%d" % i, x)


def obligations(tier, seed):
    import random

    quick = tier == "quick"
    obs = []
    half = [F(k, 2) for k in range(0, 25)]  # half-beat grid over 3 measures of 4
    B = "tempo changes at absolute beats %s (metronome %d), symbolic beat lengths and initial offset; entry point %s"
    lists2 = [(F(0), p) for p in half[1:]]
    lists3 = [(F(0), p, q) for p, q in itertools.combinations(half[1:17], 2)]
    if quick:
        lists3 = lists3[::5]
        lists3 += [(F(0), F(2), F(2)), (F(0), F(3, 2), F(3, 2), F(5)), (F(0), F(2), F(6), F(6)), (F(0), F(4), F(4), F(9, 2))]  # changes sharing a position
    else:
        lists3 += [(F(0), p, p) for p in half[1:9]] + [(F(0), p, q, q) for p, q in itertools.combinations(half[1:13], 2)][::2]
    for pos in lists2 + lists3:
        pn = ",".join(str(p) for p in pos)
        obs.append(Obligation("C11/grid/m4/%s" % pn, partial(ob_reseat_grid, pos, 4), bound=B % (pn, 4, "TimingMap.reseat_bpm_changes_snap")))
    if not quick:
        lists4 = [(F(0), a, b, c) for a, b, c in itertools.combinations(half[1:13], 3)]
        for pos in lists4[::3]:
            pn = ",".join(str(p) for p in pos)
            obs.append(Obligation("C11/grid/m4/%s" % pn, partial(ob_reseat_grid, pos, 4), bound=B % (pn, 4, "TimingMap.reseat_bpm_changes_snap")))
    for M in (3, 5, 7):
        for pos in [(F(0), F(1)), (F(0), F(M)), (F(0), F(M) + F(1, 2)), (F(0), F(3, 2), F(2 * M)), (F(0), F(M - 1), F(M + 1, 1))]:
            pn = ",".join(str(p) for p in pos)
            obs.append(Obligation("C11/grid/m%d/%s" % (M, pn), partial(ob_reseat_grid, pos, M), bound=B % (pn, M, "TimingMap.reseat_bpm_changes_snap")))
    # finer grids chosen by the seed
    rnd = random.Random(1000 + seed)
    for k in range(12 if quick else 120):
        den = rnd.choice([3, 4, 6, 8, 12, 16, 48])
        n = rnd.choice([2, 3, 3, 4] if not quick else [2, 3])
        pts = sorted(F(rnd.randrange(1, 12 * den), den) for _ in range(n - 1))
        pos = (F(0),) + tuple(pts)
        pn = ",".join(str(p) for p in pos)
        obs.append(Obligation("C11/fine/%d/%s" % (k, pn), partial(ob_reseat_grid, pos, 4), bound=B % (pn, 4, "TimingMap.reseat_bpm_changes_snap") + " (positions drawn with VERIF_SEED)"))
    for entry in ("from_snap", "reseat()"):
        for pos in [(F(0), F(2)), (F(0), F(1, 2), F(6)), (F(0), F(4), F(5)), (F(0), F(7, 2), F(15, 2), F(12))]:
            pn = ",".join(str(p) for p in pos)
            obs.append(Obligation("C11/%s/%s" % (entry, pn), partial(ob_reseat_grid, pos, 4, entry=entry), bound=B % (pn, 4, entry)))
    for si, ch in enumerate(MIXED_SETS):
        for entry in ("static", "offsets-reseat()"):
            obs.append(Obligation("C11/mixed-metronomes/set%d/%s" % (si, entry), partial(ob_reseat_mixed, ch, entry=entry),
                                  bound="tempo changes %s (measure, beat, beats per measure), symbolic beat lengths and offset; entry point %s" % (ch, entry)))
    pieces = [(F(0), F(1, 2)), (F(1, 2), F(4)), (F(4), F(4) + F(1, 100)), (F(4) + F(1, 100), F(8)), (F(8), F(8) + F(1, 100)), (F(8) + F(1, 100), F(12))]
    for lo, hi in pieces[:4]:
        obs.append(Obligation("C11/free-after-a-change/p[%s,%s)" % (lo, hi), partial(ob_reseat_free, 500, lo, hi, 4, lead=2),
                              bound="three changes: 150 bpm at measure 0, 120 bpm at measure 2, then a change at a free symbolic beat position p in [%s,%s) after it" % (lo, hi),
                              max_paths=2000, timeout_s=240))
    for tname in ("ext-mid", "int+ext", "two-in-line", "48th", "ext-measure-line"):
        obs.append(Obligation("C11/bms-read/tempo=%s" % tname, partial(ob_bms_read_seated, tname), bound="BMSMap.read of a file with tempo lines %s (no channel 02): tempo list on measure lines" % (tname,)))
    for lo, hi in pieces:
        obs.append(Obligation("C11/free/p[%s,%s)" % (lo, hi), partial(ob_reseat_free, 500, lo, hi, 4),
                              bound="second change at a free symbolic beat position p in [%s,%s) after a 120 bpm change (metronome 4), symbolic second tempo and offset" % (lo, hi),
                              max_paths=2000, timeout_s=240))
    return obs
