"""C15, writers: the file written from a row-permuted chart denotes the same timeline (filled in with the format harnesses)."""


def obligations(tier, seed):
    return []
