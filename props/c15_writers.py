"""C15, writers: the file written from a row-permuted chart denotes the same timeline."""
from __future__ import annotations

from functools import partial

from symx.run import Obligation
from .common import same_multiset
from .c09 import Spec
from .memcharts import mem_chart, written, WRITABLE


def ob_writer_order(game, keys, variant, ctx, stops=False):
    sp = Spec(ctx, keys, variant, zero_start=game == "bms")
    if stops:  # StepMania stop list (an "other list" of the chart): two stops of different lengths
        from fractions import Fraction as F

        sp.stops = [(F(2), 250.0), (F(6), 125.0), (F(10), 500.0)]
    a = written(ctx, game, mem_chart(ctx, sp, game, perm=False))
    b = written(ctx, game, mem_chart(ctx, sp, game, perm=True))
    ctx.check("both-well-formed", not a["ill"] and not b["ill"], note="%r %r" % (a["ill"][:1], b["ill"][:1]))
    for k in ("hits", "holds", "tempo") + (("samples",) if game == "osu" else ()):
        ctx.check("written-files.same-%s" % k, same_multiset(ctx, a[k], b[k]), note="%r vs %r" % (a[k][:3], b[k][:3]))
    for k in a["extra"]:
        from .common import cell_same

        ctx.check("written-files.same-%s" % k, cell_same(ctx, a["extra"][k], b["extra"][k]))
    if game == "sm":
        ctx.check("written-files.same-offset", ctx.eq(a["offset_ms"], b["offset_ms"]))
        ctx.check("written-files.same-stops", same_multiset(ctx, a["stops"], b["stops"]), note="%r vs %r" % (a["stops"], b["stops"]))


def obligations(tier, seed):
    quick = tier == "quick"
    obs = []
    for g in WRITABLE:
        for keys, variant in ((4, "a"), (7, "b")) if quick else ((4, "a"), (4, "b"), (4, "c"), (7, "a"), (7, "b")):
            obs.append(Obligation("C15/write/%s/K%d/%s" % (g, keys, variant), partial(ob_writer_order, g, keys, variant),
                                  bound="%s chart (%d keys, variant %s) and the same chart with every list's rows reversed: both written, both files interpreted by the reference reader" % (g, keys, variant),
                                  max_paths=3000, timeout_s=300))
    obs.append(Obligation("C15/write/sm/K4/a/with-stops", partial(ob_writer_order, "sm", 4, "a", stops=True),
                          bound="StepMania chart with three stops of different lengths; every list (stops included) reversed"))
    return obs
