"""C09 - Read -> convert -> write yields a valid target file with the source's timeline.

One chart (objects on the beat grid, two tempo points with symbolic beat lengths, symbolic start time) is rendered as
a source *file* of each of the five formats, pushed through the real reader, the real converter and the real writer,
and the written file is interpreted by the reference reader of the target format.
"""
from __future__ import annotations

import itertools
from fractions import Fraction as F
from functools import partial

from symx.run import Obligation
from symx.core import SymNum, isna
from symx import hook
from oracles import osu as ref_osu, sm as ref_sm, bms as ref_bms, qua as ref_qua, ojn as ref_ojn
from .common import col, cell_same, same_multiset, same_steps
from . import c01, c02, c04, c06, c07

PAIRS = [("osu", "qua"), ("osu", "sm"), ("osu", "bms"), ("qua", "osu"), ("qua", "sm"), ("qua", "bms"), ("sm", "osu"), ("sm", "qua"), ("sm", "bms"),
         ("bms", "osu"), ("bms", "qua"), ("bms", "sm"), ("o2j", "osu"), ("o2j", "qua"), ("o2j", "sm"), ("o2j", "bms")]
CONV = {("osu", "qua"): "OsuToQua", ("osu", "sm"): "OsuToSM", ("osu", "bms"): "OsuToBMS", ("qua", "osu"): "QuaToOsu", ("qua", "sm"): "QuaToSM", ("qua", "bms"): "QuaToBMS",
        ("sm", "osu"): "SMToOsu", ("sm", "qua"): "SMToQua", ("sm", "bms"): "SMToBMS", ("bms", "osu"): "BMSToOsu", ("bms", "qua"): "BMSToQua", ("bms", "sm"): "BMSToSM",
        ("o2j", "osu"): "O2JToOsu", ("o2j", "qua"): "O2JToQua", ("o2j", "sm"): "O2JToSM", ("o2j", "bms"): "O2JToBMS"}


class Spec:
    """the chart: keys, hits [(col, beat)], holds [(col, beat, end)], tempo at beats [0, B1] (whole measures)"""

    def __init__(self, ctx, keys, variant, zero_start):
        k = keys
        self.tempo_rows_reversed = variant.endswith("-rev")  # the source lists its later tempo point first
        self.header_tempo_overridden = variant.endswith("-hdr")  # O2Jam: the header tempo differs from a tempo event on measure 0
        self.level = 1 if variant.endswith("-lvl") else 0  # O2Jam: the chart is the file's second difficulty; the first has other tempo changes
        variant = variant.split("-")[0]
        self.keys = k
        self.T0 = 0 if zero_start else ctx.real("T0")
        self.L = [ctx.real("L0"), ctx.real("L1")]
        for L in self.L:
            ctx.assume(L >= 1)
            ctx.assume(L <= 60000)
        self.tb = [F(0), F(8)]
        self.meter = [4, 4]
        if variant == "a":
            self.hits = [(0, F(0)), (k - 1, F(5, 2)), (1 % k, F(9)), (0, F(12))]
            self.holds = [(2 % k, F(1), F(7, 2)), (k - 1, F(6), F(10))]
        elif variant == "b":
            self.hits = [(k - 1, F(4)), (0, F(4) + F(1, 4)), (0, F(13, 2))]
            self.holds = [(1 % k, F(0), F(2))]
        elif variant == "c":
            self.hits = [(0, F(1)), (1 % k, F(1)), (k - 1, F(8))]
            self.holds = []
        elif variant == "d":  # a long gap between objects across the second tempo point; the osu source gives its first point 3 beats per measure
            self.tb = [F(0), F(9)]
            self.hits = [(0, F(0)), (k - 1, F(3)), (1 % k, F(14)), (0, F(18))]
            self.holds = []
            self.meter = [3, 4]
        elif variant == "f":  # the highest lane carries only a long note
            self.hits = [(0, F(0)), (1 % k, F(1)), (0, F(9))]
            self.holds = [(k - 1, F(2), F(5))]
        else:  # "e": one object in every lane
            self.hits = [(c, F(c, 2)) for c in range(k)]
            self.holds = [(k - 1, F(9), F(11))]

    def t(self, p):
        if p <= self.tb[1]:
            return self.T0 + p * self.L[0]
        return self.T0 + self.tb[1] * self.L[0] + (p - self.tb[1]) * self.L[1]

    def bpm(self, i):
        return 60000 / self.L[i]


# ---- source files ------------------------------------------------------------------------------------------------------
def src_osu(ctx, sp):
    from reamber.osu import OsuMap

    tk = ctx.tok
    objs = []
    for c, p in sp.hits:
        x = int((512 * c + 256) // sp.keys)
        objs.append("%d,192,%s,1,0,0:0:0:0:" % (x, tk(sp.t(p))))
    for c, p, e in sp.holds:
        x = int((512 * c + 256) // sp.keys)
        objs.append("%d,192,%s,128,0,%s:0:0:0:0:" % (x, tk(sp.t(p)), tk(sp.t(e))))
    tps = ["%s,%s,%d,1,0,50,1,0" % (tk(sp.t(sp.tb[i])), tk(sp.L[i]), sp.meter[i]) for i in range(2)]
    if sp.tempo_rows_reversed:
        tps.reverse()
    text = c01.HEAD % dict(preview="100", title="Song", version="Hard", keys=sp.keys, samples="", timing="\n".join(tps), objects="\n".join(objs))
    return OsuMap.read(text.split("\n"))


def src_qua(ctx, sp):
    d = dict(c06.META)
    d["Mode"] = "Keys%d" % sp.keys
    d["Title"], d["Artist"], d["Creator"], d["DifficultyName"] = "Song", "art", "me", "Hard"
    objs = [dict(StartTime=sp.t(p), Lane=c + 1, KeySounds=[]) for c, p in sp.hits]
    objs += [dict(StartTime=sp.t(p), Lane=c + 1, EndTime=sp.t(e), KeySounds=[]) for c, p, e in sp.holds]
    d["HitObjects"] = objs
    d["TimingPoints"] = [dict(StartTime=sp.t(sp.tb[i]), Bpm=sp.bpm(i)) for i in range(2)]
    if sp.tempo_rows_reversed:
        d["TimingPoints"].reverse()
    d["SliderVelocities"] = []
    return c06._read(d)


def src_sm(ctx, sp):
    from reamber.sm import SMMapSet

    tk = ctx.tok
    last = max([p for _c, p in sp.hits] + [e for _c, _p, e in sp.holds])
    nmeas = int(last // 4) + 1
    placed = [dict() for _ in range(nmeas)]
    R = 16

    def put(p, c, sym):
        m = int(p // 4)
        r = (p - 4 * m) * R / 4
        assert r.denominator == 1
        placed[m][(int(r), c)] = sym

    for c, p in sp.hits:
        put(p, c, "1")
    for c, p, e in sp.holds:
        put(p, c, "2")
        put(e, c, "3")
    measures = [c02.measure_rows(sp.keys, R, pl) for pl in placed]
    bp = ",".join("%s=%s" % (float(sp.tb[i]), tk(sp.bpm(i))) for i in (range(2) if not sp.tempo_rows_reversed else (1, 0)))
    text = c02.HEADER % dict(title="Song", offset=tk(-sp.T0 / 1000) if isinstance(sp.T0, SymNum) else repr(-float(sp.T0) / 1000), sstart="1.5", slen="10", selectable="YES", bpms=bp, stops="#STOPS:;\n")
    text += c02.chart_text(c02.TYPES[sp.keys], "Hard", "Hard", 9, measures)
    return SMMapSet.read(text)


def src_bms(ctx, sp):
    from reamber.bms import BMSMap

    tk = ctx.tok
    lanes = c04.lane_channels("BME")
    head = ["#TITLE Song", "#ARTIST art", "#BPM %s" % tk(sp.bpm(0)), "#PLAYLEVEL Hard", "#LNOBJ ZZ", "#WAV01 a.wav", "#BPM01 %s" % tk(sp.bpm(1))]
    body = {}
    for c, p in sp.hits:
        body.setdefault((int(p // 4), lanes[c][1]), {})[int((p % 4) * 4)] = "01"
    for c, p, e in sp.holds:
        body.setdefault((int(p // 4), lanes[c][1]), {})[int((p % 4) * 4)] = "01"
        body.setdefault((int(e // 4), lanes[c][1]), {})[int((e % 4) * 4)] = "ZZ"
    lines = head + ["#%03d%s:%s" % (m, ch, c04.data(16, pl)) for (m, ch), pl in sorted(body.items())]
    lines.append("#%03d08:01" % int(sp.tb[1] // 4))
    return BMSMap.read(lines, note_channel_config=c04.layout("BME"))


def src_o2j(ctx, sp):
    from reamber.o2jam import O2JMapSet

    ref_ojn.reset()
    pk = {}
    for c, p in sp.hits:
        pk.setdefault((int(p // 4), c + 2), {})[int((p % 4) * 4)] = c07.N("hit")
    for c, p, e in sp.holds:
        pk.setdefault((int(p // 4), c + 2), {})[int((p % 4) * 4)] = c07.N("head")
        pk.setdefault((int(e // 4), c + 2), {})[int((e % 4) * 4)] = c07.N("tail")
    pkgs = [(m, ch, [pl.get(i) for i in range(16)]) for (m, ch), pl in sorted(pk.items())]
    pkgs.append((int(sp.tb[1] // 4), 1, [("bpm", sp.bpm(1))]))
    h = dict(c07.HDR)
    h["bpm"] = sp.bpm(0)
    if sp.header_tempo_overridden:
        Lh = ctx.real("Lheader")
        ctx.assume(Lh >= 1)
        ctx.assume(Lh <= 60000)
        h["bpm"] = 60000 / Lh
        pkgs.insert(0, (0, 1, [("bpm", sp.bpm(0)), None]))
    h["title"], h["artist"], h["creator"] = "Song", "art", "me"
    h["package_count"] = [len(pkgs), 0, 0]
    decoy = []
    if sp.level:
        Ld = ctx.real("Ldecoy")
        ctx.assume(Ld >= 1)
        ctx.assume(Ld <= 60000)
        decoy = [(0, 2, [c07.N("hit"), None]), (1, 1, [None, ("bpm", 60000 / Ld)]), (3, 3, [c07.N("hit")])]
        h["package_count"] = [len(decoy), len(pkgs), 0]
    data = ref_ojn.header(h) + b"".join(ref_ojn.package(*p) for p in decoy + pkgs)
    if hook.installed():
        c07._install_unpack()
    try:
        return O2JMapSet.read(data)
    finally:
        hook.STUBS.pop("unpack", None)


SRC = dict(osu=src_osu, qua=src_qua, sm=src_sm, bms=src_bms, o2j=src_o2j)


# ---- target files --------------------------------------------------------------------------------------------------------
def _ms_rows(ctx, label, got_h, got_l, sp, shift, bound_tags=((1, "within-1ms"), (F(1001, 1000), "within-1.001ms"))):
    want_h = [(c + shift, sp.t(p)) for c, p in sp.hits]
    want_l = [(c + shift, sp.t(p), sp.t(e)) for c, p, e in sp.holds]
    ctx.check(label + ".hits.count", len(got_h) == len(want_h), note="%d vs %d" % (len(got_h), len(want_h)))
    ctx.check(label + ".holds.count", len(got_l) == len(want_l), note="%d vs %d" % (len(got_l), len(want_l)))
    for bound, tag in bound_tags:
        eq = lambda a, b, bound=bound: ctx.all(cell_same(ctx, a[0], b[0]), *[ctx.within(x, y, bound) for x, y in zip(a[1:], b[1:])])
        ctx.check("%s.hits.columns-and-times-%s" % (label, tag), same_multiset(ctx, got_h, want_h, eq=eq), note="%r vs %r" % (got_h[:2], want_h[:2]))
        ctx.check("%s.holds.columns-and-times-%s" % (label, tag), same_multiset(ctx, got_l, want_l, eq=eq), note="%r vs %r" % (got_l[:2], want_l[:2]))


def _effective(ctx, tp):
    """tempo points in file order -> those in force: a point is overridden by a later listed point at the same time"""
    return [p for i, p in enumerate(tp) if not any(ctx.eq(p[0], q[0]) for q in tp[i + 1:])]


def tgt_osu(ctx, sp, out, shift):
    lines = out.write()
    d = ref_osu.parse(ctx, lines)
    c01._well_formed(ctx, "target", lines, d)
    ctx.check("target.key-count", d["keys"] >= sp.keys + shift, note="CircleSize %s for a %d-key chart" % (d["keys"], sp.keys))
    _ms_rows(ctx, "target", [(o["col"], o["t"]) for o in d["hits"]], [(o["col"], o["t"], o["end"]) for o in d["holds"]], sp, shift)
    tp = _effective(ctx, [(o["t"], o["bpm"]) for o in d["bpms"]])
    ctx.check("target.tempo", same_multiset(ctx, tp, [(sp.t(sp.tb[i]), sp.bpm(i)) for i in range(2)]), note="%r" % tp)
    ctx.check("target.title", d["meta"].get("Title") == "Song", note="%r" % d["meta"].get("Title"))


def tgt_qua(ctx, sp, out, shift):
    d = c06._write(out)
    bad = ref_qua.schema_violations(d, c06._int_like)
    ctx.check("target.schema", not bad, note="; ".join(bad[:3]))
    x = ref_qua.denote(d)
    ctx.check("target.mode", d.get("Mode") == "Keys%d" % (sp.keys + shift) or sp.keys + shift not in (4, 7, 8), note="%r" % d.get("Mode"))
    _ms_rows(ctx, "target", [(o["col"], o["t"]) for o in x["hits"]], [(o["col"], o["t"], o["t"] + o["len"]) for o in x["holds"]], sp, shift)
    tp = _effective(ctx, [(o["t"], o["bpm"]) for o in x["bpms"]])
    eq = lambda a, b: ctx.all(ctx.within(a[0], b[0], 1), ctx.eq(a[1], b[1]))
    ctx.check("target.tempo", same_multiset(ctx, tp, [(sp.t(sp.tb[i]), sp.bpm(i)) for i in range(2)], eq=eq), note="%r" % tp)
    ctx.check("target.title", d.get("Title") == "Song")


def tgt_sm(ctx, sp, out, shift):
    text = out.write()
    d = ref_sm.parse(ctx, text)
    ctx.check("target.chart-count", len(d["charts"]) == 1)
    ch = d["charts"][0]
    ctx.check("target.syntax", not ch["ill_formed"], note="; ".join(ch["ill_formed"][:3]))
    ctx.check("target.chart-type", ch["keys"] == sp.keys + shift, note="%s for %d keys" % (ch["type"], sp.keys))
    # positions relative to the first tempo point (the file offset of a converted mapset is documented as to-be-checked)
    got_h = sorted((o["col"], o["beat"]) for o in ch["objects"] if o["kind"] == "hit")
    got_l = sorted((o["col"], o["beat"], o["end"]) for o in ch["objects"] if o["kind"] == "hold")
    ctx.check("target.hits.columns-and-beats", got_h == sorted((c + shift, p) for c, p in sp.hits), note="%r" % got_h)
    ctx.check("target.holds.columns-and-beats", got_l == sorted((c + shift, p, e) for c, p, e in sp.holds), note="%r" % got_l)
    ctx.check("target.other-kinds-empty", all(o["kind"] in ("hit", "hold") for o in ch["objects"]))
    tp = sorted(d["bpms"], key=lambda p: p[0])
    ctx.check("target.tempo.same-timeline", same_steps(ctx, [(F(b), x) for b, x in tp], [(sp.tb[i], sp.bpm(i)) for i in range(2)]), note="%r" % [b for b, _x in tp])
    ctx.check("target.title", d["header"].get("#TITLE") == "Song", note="%r" % d["header"].get("#TITLE"))


def tgt_bms(ctx, sp, out, shift):
    data = out.write()
    lines = data.split(b"\r\n")
    d = ref_bms.parse(ctx, lines, c04.ref_layout("BME"))
    ctx.check("target.syntax", not d["ill_formed"], note="%r" % d["ill_formed"][:2])
    got_h = sorted((o["col"], o["pos"]) for o in d["hits"])
    got_l = sorted((o["col"], o["pos"], o["end"]) for o in d["holds"])
    ctx.check("target.hits.lanes-and-beats", got_h == sorted((c + shift, p) for c, p in sp.hits), note="%r" % got_h)
    ctx.check("target.holds.lanes-and-beats", got_l == sorted((c + shift, p, e) for c, p, e in sp.holds), note="%r" % got_l)
    fil = [(F(0), d["bpm0"])]
    for p, v in d["tempo"]:
        if p == fil[-1][0]:
            fil[-1] = (p, v)
        else:
            fil.append((p, v))
    # (three printed decimals; an O2Jam source stores its tempos as float32, which the concrete runs really round)
    tol = F(5001, 10**7) + ((sp.bpm(0) + sp.bpm(1)) * F(1, 2**23) if getattr(sp, "src", "") == "o2j" else 0)
    ctx.check("target.tempo.same-timeline-to-3-decimals", same_steps(ctx, fil, [(sp.tb[i], sp.bpm(i)) for i in range(2)], tol), note="%r" % [p for p, _v in fil])
    ctx.check("target.title", d["header"].get(b"TITLE") == b"Song", note="%r" % d["header"].get(b"TITLE"))


TGT = dict(osu=tgt_osu, qua=tgt_qua, sm=tgt_sm, bms=tgt_bms)


def ob_pipeline(src, tgt, keys, variant, ctx):
    import reamber.algorithms.convert as CV

    sp = Spec(ctx, keys, variant, zero_start=src in ("bms", "o2j"))
    sp.src = src
    if src == "o2j" and not isinstance(sp.L[0], SymNum):  # concrete runs: an .ojn stores float32 tempos; they are what the file denotes
        import struct

        sp.L = [60000 / struct.unpack("<f", struct.pack("<f", 60000 / x))[0] for x in sp.L]
    a = SRC[src](ctx, sp)
    cv = getattr(CV, CONV[(src, tgt)])
    shift = 1 if CONV[(src, tgt)] == "O2JToBMS" else 0
    out = cv.convert(a)
    if isinstance(out, list):
        ctx.check("converted.one-per-chart", len(out) == (len(a.maps) if hasattr(a, "maps") else 1), note="%d" % len(out))
        out = out[sp.level]
    TGT[tgt](ctx, sp, out, shift)


def obligations(tier, seed):
    quick = tier == "quick"
    obs = []
    for src, tgt in PAIRS:
        keysets = [7] if src == "o2j" else ([4, 7] if quick else [4, 6, 7, 8])
        for keys in keysets:
            if keys == 6 and "qua" in (src, tgt):
                continue
            if keys == 8 and ("sm" in (src, tgt) and "qua" in (src, tgt)) is False and tgt == "qua":
                pass
            for variant in (("a",) if quick and keys != 4 else ("a", "b", "c")):
                if quick and variant == "c" and (src, tgt) not in (("osu", "sm"), ("sm", "bms"), ("qua", "osu")):
                    continue
                obs.append(_ob(src, tgt, keys, variant))
    # 3-key charts (osu, StepMania dance-threepanel, BMS), 16-lane charts (osu <-> BMS BME), one object per lane
    for src, tgt in PAIRS:
        if "qua" not in (src, tgt) and src != "o2j":
            obs.append(_ob(src, tgt, 3, "e"))
            if not quick:
                obs.append(_ob(src, tgt, 3, "c"))  # (variants a/b put a hit inside a hold of its lane when there are only 3 lanes)
        if (src, tgt) in (("osu", "bms"), ("bms", "osu")):
            obs.append(_ob(src, tgt, 16, "e"))
            if not quick:
                obs.append(_ob(src, tgt, 10, "e"))
        elif src != "o2j" and not quick:
            for keys in (4, 7, 8):
                if not (keys == 8 and "qua" in (src, tgt) and False):
                    obs.append(_ob(src, tgt, keys, "e"))
    for tgt in ("osu", "qua", "sm", "bms"):
        obs.append(_ob("o2j", tgt, 7, "a-hdr"))
        obs.append(_ob("o2j", tgt, 7, "b-lvl"))
    # sources that list their later tempo point first
    for src, tgt in PAIRS:
        if src in ("osu", "qua", "sm") and (not quick or tgt in ("bms", "sm") or (src, tgt) == ("sm", "osu")):
            obs.append(_ob(src, tgt, 4, "a-rev"))
            if not quick:
                obs.append(_ob(src, tgt, 7, "b-rev"))
    for src, tgt in PAIRS:
        if src != "o2j" and (not quick or src == "bms" or tgt == "osu"):
            obs.append(_ob(src, tgt, 4 if "qua" in (src, tgt) else 6, "f"))
    # an osu source whose first timing point has 3 beats per measure (formats without measure lengths must not inherit it)
    for tgt in ("sm", "qua"):
        for keys in ((4,) if quick else (4, 7)):
            obs.append(_ob("osu", tgt, keys, "d"))
    return obs


def _ob(src, tgt, keys, variant):
    return Obligation("C09/%s-to-%s/K%d/%s" % (src, tgt, keys, variant), partial(ob_pipeline, src, tgt, keys, variant),
                      bound="source %s file -> %s -> target %s file; %d keys, chart variant %s (objects on the quarter-beat grid, tempo points at beats 0 and 8), "
                            "symbolic beat lengths (bpm in [1, 60000])%s" % (src, CONV[(src, tgt)], tgt, keys, variant, "" if src in ("bms", "o2j") else " and symbolic start time"),
                      max_paths=3000, timeout_s=300)
