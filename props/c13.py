"""C13 - Rate change scales time uniformly, composes, and survives a write."""
from __future__ import annotations

import dataclasses
from functools import partial

from symx.run import Obligation
from .common import GAMES, SV_GAMES, classes, build_map, MapSnap, cell_same, col

TIME_COLS = {"offset": "div", "length": "div", "bpm": "mul"}


def _chart(ctx, game, shape):
    """A chart of ``game`` with symbolic times/lengths/tempos.  shape: full | sparse | empty."""
    C = classes(game)
    t = ctx.reals("t", 6)
    ln = ctx.reals("len", 2)
    b = ctx.reals("bpm", 2)
    mu = ctx.real("mult")
    for x in b:
        ctx.assume(x > 0)
    extra = {}
    if shape == "full":
        hits = [(t[0], 0), (t[1], 2)]
        holds = [(t[2], 1, ln[0]), (t[3], 3, ln[1])]
        bpms = [(t[0], b[0]), (t[4], b[1])]
        svs = [(t[5], mu)]
        if game == "sm":
            extra = dict(rolls=[C["Roll"](t[1], 0, ln[1])], mines=[C["Mine"](t[5], 1)], lifts=[C["Lift"](t[4], 2)],
                         fakes=[C["Fake"](t[3], 0)], keysounds=[C["KeySound"](t[2], 3)], stops=[C["Stop"](t[5], ln[0])])
    elif shape == "sparse":  # empty hold / SV / sample lists
        hits = [(t[0], 0), (t[1], 1), (t[2], 1)]
        holds, svs = [], []
        bpms = [(t[3], b[0])]
    else:  # only a tempo point
        hits, holds, svs = [], [], []
        bpms = [(t[0], b[0])]
    if game == "bms":
        hits = [h + (dict(sample=b"a.wav"),) for h in hits]
    if game == "o2j":
        hits = [h + (dict(volume=3, pan=5),) for h in hits]
    m = build_map(game, hits, holds, bpms, svs if game in SV_GAMES else (), extra)
    if game == "osu":
        m.title = "T"
        m.circle_size = 7
        if shape == "full":
            m.samples = C["SampleList"]([C["Sample"](t[3], "s.wav", 40), C["Sample"](t[1], "u.wav", 70)])
    if game == "qua":
        m.title = "T"
        m.mode = "Keys7"
    return m


def _check_scaled(ctx, src: MapSnap, dst, r, label):
    """dst is the chart described by ``src`` with times/durations divided and bpm multiplied by r."""
    for k, s in src.lists.items():
        tl = getattr(dst, k[1:]) if k.startswith("@") else dst.objs[k]
        name = k.lstrip("@")
        if not k.startswith("@"):
            ctx.check("%s.%s.type" % (label, name), type(tl) is src.types[k])
        df = tl.df
        ctx.check("%s.%s.columns" % (label, name), list(df.columns) == s.columns, note="%s -> %s" % (s.columns, list(df.columns)))
        ctx.check("%s.%s.len" % (label, name), len(df) == s.n)
        if list(df.columns) != s.columns or len(df) != s.n:
            continue
        for c, old in zip(s.columns, s.cells):
            new = col(df, c)
            how = TIME_COLS.get(c)
            if how == "div":
                ok = ctx.all(*[ctx.eq(n * r, o) for n, o in zip(new, old)])
            elif how == "mul":
                ok = ctx.all(*[ctx.eq(n, o * r) for n, o in zip(new, old)])
            else:
                ok = ctx.all(*[cell_same(ctx, n, o) for n, o in zip(new, old)])
            ctx.check("%s.%s[%s]" % (label, name, c), ok)
            if how:
                for i, n in enumerate(new):
                    ctx.observe("%s.%s[%s][%d]" % (label, name, c, i), n)


def ob_rate(game, shape, ctx, no_preview=False, ints=False):
    if ints:  # integer-typed columns (as read from integer-valued files) and a rate that gives non-integral results
        # (times and lengths are integers = 1 mod 3 and the rate is 3/2 + k: every rated value is non-integral, so a result that
        #  was cast back to integers cannot pass)
        real, ctx.real = ctx.real, (lambda name: 3 * ctx.int(name, -30000, 30000) + 1 if name[0] == "t" or name.startswith("len") else real(name))
        try:
            m = _chart(ctx, game, shape)
        finally:
            ctx.real = real
        r = ctx.real("r")
        k = ctx.int("rk", 0, 1)
        ctx.assume(r * 2 == k * 6 + 3)
    else:
        m = _chart(ctx, game, shape)
        r = ctx.real("r")
        ctx.assume(r > 0)
    p = None
    if game == "osu" and not no_preview:
        p = ctx.real("preview")
        ctx.assume(p >= 0)
        m.preview_time = p
    snap = MapSnap(m)
    m2 = m.rate(r)
    ctx.check("result.is-new-object", m2 is not m)
    ctx.check("result.type", type(m2) is type(m))
    snap.same(ctx, m, "source")
    _check_scaled(ctx, snap, m2, r, "rated")
    skip = ("preview_time",) if game == "osu" else ()
    for k, v in snap.fields.items():
        if k in skip:
            continue
        ctx.check("rated.field[%s]" % k, cell_same(ctx, getattr(m2, k), v), note="%r -> %r" % (v, getattr(m2, k)))
    if game == "osu" and p is not None:
        ctx.check("rated.preview_time", ctx.eq(m2.preview_time * r, p))


def ob_identity(game, ctx):
    m = _chart(ctx, game, "full")
    r = ctx.real("r")
    ctx.assume(r == 1)
    snap = MapSnap(m)
    m2 = m.rate(r)
    for k, s in snap.lists.items():
        tl = getattr(m2, k[1:]) if k.startswith("@") else m2.objs[k]
        s.same(ctx, tl.df, "rate1." + k.lstrip("@"), dtypes=False, index=False)


def ob_compose(game, ctx):
    m = _chart(ctx, game, "full")
    a, b = ctx.real("a"), ctx.real("b")
    ctx.assume(a > 0)
    ctx.assume(b > 0)
    x = m.rate(a).rate(b)
    y = m.rate(a * b)
    for k in x.objs:
        dx, dy = x.objs[k].df, y.objs[k].df
        ctx.check("compose.%s.shape" % k, list(dx.columns) == list(dy.columns) and len(dx) == len(dy))
        for c in dx.columns:
            ctx.check("compose.%s[%s]" % (k, c), ctx.all(*[cell_same(ctx, p, q) for p, q in zip(col(dx, c), col(dy, c))]))
    if game == "osu":
        ctx.check("compose.samples", ctx.all(*[cell_same(ctx, p, q) for p, q in zip(col(x.samples.df, "offset"), col(y.samples.df, "offset"))]))


def ob_sm_mapset(ctx):
    C = classes("sm")
    m1 = _chart(ctx, "sm", "full")
    t0 = col(m1.bpms.df, "offset")[0]
    m2 = build_map("sm", [(t0, 1)], [], [(b[0], b[1]) for b in zip(col(m1.bpms.df, "offset"), col(m1.bpms.df, "bpm"))])
    m2.chart_type = "dance-solo"
    ss, sl, r = ctx.real("sample_start"), ctx.real("sample_length"), ctx.real("r")
    ctx.assume(r > 0)
    ctx.assume(sl >= 0)
    sms = C["MapSet"]()
    sms.maps = [m1, m2]
    sms.title, sms.artist = "T", "A"
    sms.offset = t0  # the property's domain: #OFFSET equals the first tempo point
    sms.sample_start, sms.sample_length = ss, sl
    snaps = [MapSnap(m) for m in sms.maps]
    fields = {f.name: getattr(sms, f.name) for f in dataclasses.fields(sms) if f.name != "maps"}
    out = sms.rate(r)
    ctx.check("mapset.maps.len", len(out.maps) == 2)
    ctx.check("mapset.source.maps-untouched", sms.maps[0] is m1 and sms.maps[1] is m2)
    for i, (s, m) in enumerate(zip(snaps, sms.maps)):
        s.same(ctx, m, "source.map%d" % i)
    for i, (s, m) in enumerate(zip(snaps, out.maps)):
        _check_scaled(ctx, s, m, r, "rated.map%d" % i)
    ctx.check("mapset.sample_start", ctx.eq(out.sample_start * r, ss))
    ctx.check("mapset.sample_length", ctx.eq(out.sample_length * r, sl))
    ctx.check("mapset.file-offset", ctx.eq(out.offset * r, t0), note="#OFFSET source must scale with the tempo list")
    ctx.check("mapset.source.fields", ctx.all(*[cell_same(ctx, getattr(sms, k), v) for k, v in fields.items()]))
    for k, v in fields.items():
        if k not in ("offset", "sample_start", "sample_length"):
            ctx.check("mapset.field[%s]" % k, cell_same(ctx, getattr(out, k), v))


def ob_o2j_mapset(ctx):
    C = classes("o2j")
    m1 = _chart(ctx, "o2j", "full")
    m2 = _chart_like_sparse(ctx)
    r = ctx.real("r")
    ctx.assume(r > 0)
    ms = C["MapSet"]()
    ms.maps = [m1, m2]
    ms.title, ms.bpm, ms.level = "T", 120.0, [1, 2, 3]
    snaps = [MapSnap(m) for m in ms.maps]
    out = ms.rate(r)
    ctx.check("mapset.maps.len", len(out.maps) == 2)
    for i, (s, m) in enumerate(zip(snaps, ms.maps)):
        s.same(ctx, m, "source.map%d" % i)
    for i, (s, m) in enumerate(zip(snaps, out.maps)):
        _check_scaled(ctx, s, m, r, "rated.map%d" % i)
    ctx.check("mapset.title", out.title == "T" and out.level == [1, 2, 3])


def ob_generic_mapset(game, ctx):
    """reamber.base.MapSet holding charts of one game: every chart is rated by its own rate() (game extras included)."""
    from reamber.base.MapSet import MapSet

    m1 = _chart(ctx, game, "full")
    m2 = m1.deepcopy()
    d = ctx.real("shift")
    m2.stack().offset += d
    r = ctx.real("r")
    ctx.assume(r > 0)
    if game == "osu":
        p = ctx.real("preview")
        ctx.assume(p >= 0)
        m1.preview_time = p
        m2.preview_time = p + 1
    ms = MapSet([m1, m2])
    snaps = [MapSnap(m) for m in ms.maps]
    out = ms.rate(r)
    ctx.check("mapset.type", type(out) is MapSet)
    ctx.check("mapset.maps.len", len(out.maps) == 2)
    ctx.check("mapset.source.maps-untouched", ms.maps[0] is m1 and ms.maps[1] is m2)
    for i, (s, m) in enumerate(zip(snaps, ms.maps)):
        s.same(ctx, m, "source.map%d" % i)
    for i, (s, m) in enumerate(zip(snaps, out.maps)):
        ctx.check("rated.map%d.type" % i, type(m) is type(ms.maps[i]))
        _check_scaled(ctx, s, m, r, "rated.map%d" % i)
        if game == "osu":
            ctx.check("rated.map%d.preview_time" % i, ctx.eq(m.preview_time * r, ms.maps[i].preview_time))


def _chart_like_sparse(ctx):
    u = ctx.reals("u", 2)
    bb = ctx.real("bpmx")
    ctx.assume(bb > 0)
    return build_map("o2j", [(u[0], 0), (u[1], 6)], [], [(u[0], bb)])


def obligations(tier, seed):
    obs = []
    for g in GAMES:
        for shape in ("full", "sparse", "empty"):
            obs.append(Obligation("C13/rate/%s/%s" % (g, shape), partial(ob_rate, g, shape),
                                  bound="one %s chart, shape=%s (<=2 hits, <=2 holds, <=2 tempo points, <=1 SV, SM extras), all times/lengths/bpms/rate symbolic reals, r>0" % (g, shape)))
        obs.append(Obligation("C13/identity/%s" % g, partial(ob_identity, g), bound="rate(r) with r==1 assumed, full chart"))
        obs.append(Obligation("C13/compose/%s" % g, partial(ob_compose, g), bound="rate(a).rate(b) vs rate(a*b), a,b>0 symbolic, full chart"))
    obs.append(Obligation("C13/rate/osu/full/no-preview-point", partial(ob_rate, "osu", "full", no_preview=True),
                          bound="osu chart with the default preview point (-1, unset) and sample events: everything else still scales"))
    for g in GAMES:
        obs.append(Obligation("C13/rate/%s/full/int-times" % g, partial(ob_rate, g, "full", ints=True),
                              bound="%s chart whose times and lengths are integers (integer-typed columns), rate an odd multiple of 1/2" % g))
    obs.append(Obligation("C13/mapset/sm", ob_sm_mapset, bound="SMMapSet with 2 charts sharing one tempo list; offset, sample window symbolic"))
    obs.append(Obligation("C13/mapset/o2j", ob_o2j_mapset, bound="O2JMapSet with 2 charts"))
    for g in GAMES:
        obs.append(Obligation("C13/mapset/generic/%s" % g, partial(ob_generic_mapset, g), bound="reamber.base.MapSet of 2 %s charts (full shape), symbolic times and rate" % g))
    from . import c13_files

    obs.extend(c13_files.obligations(tier, seed))
    return obs
