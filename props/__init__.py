"""Obligations of the 20 properties.  ``props.cXX.obligations(tier, seed)`` -> list[Obligation]."""
import importlib


def load_obligations(prop, tier, seed):
    mod = importlib.import_module("props." + prop.lower())
    return mod.obligations(tier, int(seed))
