"""Numerals in text/binary inputs and outputs.

File *structure* is concrete, numeric *content* symbolic: a symbolic number appears in a text as the
ASCII token ``~N<k>~``; the redirected ``float()/int()`` (symx.hook) map a token back to its term, and
a proxy's ``__str__/__format__`` emits a token.  Lossy format specs are modelled as the rounding they
perform.  The registry is reset at the start of every path.
"""
from __future__ import annotations

import re
from fractions import Fraction as F

from .core import SymNum, Q, Unsupported, concretize

REG: list = []
_TOK = re.compile(r"^\s*~N(\d+)~\s*$")
_TOKB = re.compile(rb"^\s*~N(\d+)~\s*$")
TOK_ANY = re.compile(r"~N(\d+)~")
_FIXED = re.compile(r"^\.(\d+)f$")
_INTSPEC = re.compile(r"^0?\d*d?$")


def reset():
    REG.clear()


def tok(x) -> str:
    REG.append(x)
    return "~N%d~" % (len(REG) - 1)


def detok(s):
    """token text -> registered term, else None."""
    if isinstance(s, str):
        m = _TOK.match(s)
    elif isinstance(s, (bytes, bytearray)):
        m = _TOKB.match(bytes(s))
    else:
        return None
    return REG[int(m.group(1))] if m else None


def fmt(x: SymNum, spec: str) -> str:
    c = x.const()
    if c is not None:
        return format(Q(c), spec)
    if spec == "":
        return tok(x)
    m = _FIXED.match(spec)
    if m:
        return tok(round(x, int(m.group(1))))
    if _INTSPEC.match(spec):
        return format(concretize(x), spec)
    if spec == "g":
        # an integer of at most six digits prints as itself; everything else (exponent form, six significant digits) is left
        # to the float run of this path, whose model now satisfies the complementary condition
        from .core import p_integral

        if p_integral(x.p) and bool(x < 10**6) and bool(x > -10**6):
            return tok(x)
    raise Unsupported("format spec %r on a symbolic value" % spec)


def parse_num(s):
    """Reference-reader side: numeral or token -> exact number (SymNum / Q)."""
    v = detok(s)
    if v is not None:
        return v
    if isinstance(s, (bytes, bytearray)):
        s = bytes(s).decode("ascii")
    s = s.strip()
    try:
        return Q(int(s))
    except ValueError:
        return Q(F(float(s)))  # the exact value of the double the real reader would obtain
