"""Engine SX, part 3: discharging one obligation (all paths, all facets), concolic validation,
replay of counterexamples in a fresh unhooked interpreter."""
from __future__ import annotations

import json
import os
import subprocess
import sys
import time
import traceback
from dataclasses import dataclass, field
from fractions import Fraction as F

import z3

from . import tokens
from .core import Engine, SymBool, SymNum, Budget, PathAbort, Unsupported, model_fraction, zvar, s_and
from .ctx import Ctx, OutOfDomain

ROOT = os.path.dirname(os.path.dirname(os.path.abspath(__file__)))
REPO = os.environ.get("VERIF_REPO", "/repo")


@dataclass
class Obligation:
    id: str
    fn: object  # callable(ctx)
    bound: str = ""
    kind: str = "sx"  # sx | k | ch
    max_paths: int = 4000
    timeout_s: float = 120.0
    stubs: list = field(default_factory=list)
    assumptions: list = field(default_factory=list)
    validate_every: int = 1
    params: dict = field(default_factory=dict)


def cvc5_verdict(smt2_text, tlimit_ms=4000):
    """Second solver: decide an SMT-LIB2 query with cvc5 (wheel); returns 'sat' | 'unsat' | 'unknown' | 'error: ...'."""
    try:
        import cvc5

        slv = cvc5.Solver()
        slv.setOption("tlimit-per", str(tlimit_ms))
        p = cvc5.InputParser(slv)
        p.setStringInput(cvc5.InputLanguage.SMT_LIB_2_6, "(set-logic ALL)\n" + smt2_text, "vc")
        sm = p.getSymbolManager()
        res = "unknown"
        while True:
            c = p.nextCommand()
            if c.isNull():
                break
            o = str(c.invoke(slv, sm)).strip()
            if o in ("sat", "unsat", "unknown"):
                res = o
            elif o.startswith("(error"):
                return "error: " + o[:120]
        return res
    except Exception as e:  # parser/solver failure: no second opinion
        return "error: %s" % (str(e)[:120],)


def _exc_facet(e):
    """Name of the facet violated by an exception escaping the code under test."""
    where = "?"
    tb = e.__traceback__
    while tb is not None:
        fn = tb.tb_frame.f_code.co_filename
        if "/reamber/" in fn:
            where = "%s:%s" % (os.path.basename(fn)[:-3], tb.tb_frame.f_code.co_name)
        tb = tb.tb_next
    if where == "?":
        return None
    return "no-exception[%s@%s]" % (type(e).__name__, where)


class HarnessError(BaseException):
    """An exception that did not pass through any reamber frame: a bug of the harness, not a verdict."""


def run_path(ob, ctx):
    """Run the harness once; an escaping Exception becomes a failed facet."""
    tokens.reset()
    try:
        ob.fn(ctx)
    except OutOfDomain:
        raise
    except Exception as e:  # BaseException (engine control flow) passes through
        facet = _exc_facet(e)
        if facet is None:
            raise HarnessError("".join(traceback.format_exception(type(e), e, e.__traceback__))[-2500:]) from None
        ctx.check(facet, False, note="".join(traceback.format_exception_only(type(e), e)).strip()[:300])
    return ctx


def _model_values(model, ctx):
    vals = {}
    for name, _kind in ctx.inputs:
        v = model.eval(zvar(name), model_completion=True)
        vals[name] = str(model_fraction(v))
    return vals


def _sym_value(model, x):
    if isinstance(x, SymNum):
        return float(model_fraction(model.eval(x.t, model_completion=True)))
    if isinstance(x, (int, float, F)):
        return float(x)
    return x


def _close(a, b):
    try:
        a, b = float(a), float(b)
    except (TypeError, ValueError):
        return a == b
    if a != a or b != b:
        return a != a and b != b
    return abs(a - b) <= 1e-6 + 1e-6 * max(abs(a), abs(b))


def _profile_functions(ob):
    """Names of the reamber functions entered on the first path (for the evidence)."""
    seen = set()

    def prof(frame, event, arg):
        if event == "call":
            fn = frame.f_code.co_filename
            i = fn.find("/reamber/")
            if i >= 0 and not fn.startswith(ROOT):
                seen.add("%s:%s" % (fn[i + 1 : -3].replace("/", "."), frame.f_code.co_name))

    return seen, prof


def discharge(ob: Obligation, collect_functions=True):
    """Explore every path of the obligation symbolically."""
    t0 = time.time()
    E = Engine(deadline=t0 + ob.timeout_s, max_paths=ob.max_paths)
    res = dict(
        id=ob.id, kind="sx", bound=ob.bound, paths=0, aborted=0, vcs=0, proved=0, trivial=0, inconclusive=[],
        candidates=[], validated=0, validation_skipped=0, mismatches=[], functions=[], stubs=list(ob.stubs),
        assumptions=list(ob.assumptions), reached=0, sample=None,
    )
    cand_per_facet = {}
    funcs, prof = _profile_functions(ob)
    first = [True]

    holder = {}

    def one():
        ctx = Ctx("sym", params=ob.params)
        holder["ctx"] = ctx
        if first[0] and collect_functions:
            first[0] = False
            sys.setprofile(prof)
            try:
                return run_path(ob, ctx)
            finally:
                sys.setprofile(None)
        return run_path(ob, ctx)

    try:
        for status, out in E.explore(one):
            if status == "pruned":
                res["pruned"] = res.get("pruned", 0) + 1
                continue
            if status != "ok":
                res["aborted"] += 1
                if len(res["inconclusive"]) < 20:
                    res["inconclusive"].append("%s: %s" % (status, out))
                # the symbolic run could not follow this path; its float64 run still can: inputs declared so far take the values of
                # the path model, later ones 0 (a run that leaves the assumed domain is skipped)
                pctx = holder.get("ctx")
                if pctx is not None and res.get("fallback_runs", 0) < 8:
                    try:
                        m = E.get_model()
                        vals = _model_values(m, pctx)
                    except BaseException:
                        vals = None
                    if vals is not None:
                        res["fallback_runs"] = res.get("fallback_runs", 0) + 1
                        saved = Engine.cur
                        Engine.cur = None
                        try:
                            cctx = Ctx("conc", values=vals, params=ob.params)
                            cctx.missing_as_zero = True
                            try:
                                run_path(ob, cctx)
                            except BaseException:
                                cctx = None
                        finally:
                            Engine.cur = saved
                            tokens.reset()
                        if cctx is not None:
                            full = dict(vals)
                            for n, _k in cctx.inputs:
                                full.setdefault(n, "0")
                            for n, c in cctx.facets:
                                if c is not True:
                                    lst = cand_per_facet.setdefault(n, [])
                                    if len(lst) < 3:
                                        lst.append(dict(facet=n, model=full, origin="float64 run of a path the symbolic run could not follow", notes=[x for x in cctx.notes if x.startswith(n)][:1]))
                continue
            ctx = out
            res["paths"] += 1
            if ctx.facets:
                res["reached"] += 1
            proved_names = set()
            sym_facets = [(n, c) for n, c in ctx.facets if isinstance(c, SymBool)]
            for n, c in ctx.facets:
                if c is True:
                    res["trivial"] += 1
                    proved_names.add(n)
            failed = [(n, c) for n, c in ctx.facets if c is False]
            todo = []
            if sym_facets:
                conj = s_and(*[c for _, c in sym_facets])
                v, m = E.prove(conj)
                res["vcs"] += 1
                if v == "proved":
                    res["proved"] += len(sym_facets)
                    proved_names.update(n for n, _ in sym_facets)
                    if ob.params.get("_cvc5") and res.get("cvc5_checked", 0) < ob.params["_cvc5"]:
                        # second solver on the verification condition of this path (pc and side constraints and not facets)
                        E.solver.push()
                        E.solver.add(z3.Not(conj.t))
                        txt = E.solver.to_smt2()
                        E.solver.pop()
                        t1 = time.time()
                        cv = cvc5_verdict(txt)
                        res["cvc5_s"] = round(res.get("cvc5_s", 0) + time.time() - t1, 3)
                        res["cvc5_checked"] = res.get("cvc5_checked", 0) + 1
                        if cv == "unsat":
                            res["cvc5_agree"] = res.get("cvc5_agree", 0) + 1
                        elif cv == "sat":
                            res["cvc5_disagree"] = res.get("cvc5_disagree", 0) + 1
                            res["inconclusive"].append("cvc5 finds the verification condition satisfiable where z3 proved it (path %d)" % res["paths"])
                        else:
                            res["cvc5_noanswer"] = res.get("cvc5_noanswer", 0) + 1
                else:
                    todo = sym_facets
            for n, c in todo:
                v, m = E.prove(c)
                res["vcs"] += 1
                if v == "proved":
                    res["proved"] += 1
                    proved_names.add(n)
                elif v == "refuted":
                    failed.append((n, m))
                else:
                    if len(res["inconclusive"]) < 20:
                        res["inconclusive"].append("unknown: facet %s" % n)
            for n, m in failed:
                if m is False:
                    try:
                        m = E.get_model()
                    except PathAbort as e:
                        res["inconclusive"].append("no model for failing facet %s: %s" % (n, e))
                        continue
                lst = cand_per_facet.setdefault(n, [])
                if len(lst) < 3:
                    lst.append(dict(facet=n, model=_model_values(m, ctx), notes=[x for x in ctx.notes if x.startswith(n)][:1]))
            # ---- concolic validation of this path --------------------------------------------------
            if ob.validate_every and (res["paths"] - 1) % ob.validate_every == 0:
                interior = False
                try:
                    m, interior = E.interior_model()
                except PathAbort as e:
                    res["inconclusive"].append("validation: %s" % e)
                    m = None
                if m is not None:
                    vals = _model_values(m, ctx)
                    if res["sample"] is None:
                        res["sample"] = dict(inputs=vals, facets=[n for n, _ in ctx.facets][:12])
                    saved = Engine.cur
                    Engine.cur = None
                    try:
                        cctx = Ctx("conc", values=vals, params=ob.params)
                        try:
                            run_path(ob, cctx)
                        except OutOfDomain:
                            res["validation_skipped"] += 1
                            cctx = None
                        except BaseException as e:
                            res["mismatches"].append("concrete run failed: %r" % (e,))
                            cctx = None
                    finally:
                        Engine.cur = saved
                        tokens.reset()
                    if cctx is not None:
                        res["validated"] += 1
                        cf = dict(cctx.facets)
                        if not interior:
                            res["tie_paths"] = res.get("tie_paths", 0) + 1  # float run of a tie/boundary model: not comparable
                        for n in proved_names:
                            if n not in cf:
                                if interior:
                                    _mm(res, "facet %s proved symbolically but absent in the concrete run (inputs %s)" % (n, vals))
                            elif cf[n] is not True and interior:
                                # exact-real proof, but the float64 run of the same path model violates the facet (dtype- or
                                # rounding-dependent behaviour): a candidate like any other, decided by the unhooked replay
                                lst = cand_per_facet.setdefault(n, [])
                                if len(lst) < 3:
                                    lst.append(dict(facet=n, model=vals, origin="concolic", notes=[x for x in cctx.notes if x.startswith(n)][:1]))
                            elif cf[n] is not True:
                                pass  # boundary (tie) model: the float run took a neighbouring path (counted in tie_paths)
                        for n, c in cctx.facets:
                            if c is not True and interior and n not in dict(ctx.facets):
                                lst = cand_per_facet.setdefault(n, [])
                                if len(lst) < 3:
                                    lst.append(dict(facet=n, model=vals, origin="concolic", notes=[x for x in cctx.notes if x.startswith(n)][:1]))
                        co = dict(cctx.obs)
                        for n, x in ctx.obs:
                            if interior and n in co and not _close(_sym_value(m, x), co[n]):
                                _mm(res, "observable %s: symbolic %r vs concrete %r (inputs %s)" % (n, _sym_value(m, x), co[n], vals))
    except Budget as e:
        res["inconclusive"].append("budget: %s" % e)
    res["functions"] = sorted(funcs)
    res["candidates"] = [c for lst in cand_per_facet.values() for c in lst]
    res["queries"] = E.queries
    res["solver_s"] = round(E.solver_s, 3)
    res["unknowns"] = E.unknowns
    res["wall_s"] = round(time.time() - t0, 3)
    if res["reached"] == 0 and not res["inconclusive"]:
        res["inconclusive"].append("vacuous: no path reached an assertion")
    return res


def _mm(res, msg):
    if len(res["mismatches"]) < 10:
        res["mismatches"].append(msg)


# ---------------------------------------------------------------------------------------------
def replay_concrete(ob: Obligation, values):
    """Run the harness concretely (called inside the fresh, unhooked interpreter)."""
    ctx = Ctx("replay", values=values, params=ob.params)
    try:
        run_path(ob, ctx)
    except OutOfDomain as e:
        return dict(out_of_domain=str(e), facets={})
    return dict(facets={n: (c is True) for n, c in ctx.facets}, notes=ctx.notes[:10])


def replay_subprocess(prop, tier, seed, ob_id, values, timeout=300):
    """Replay a counterexample against the unhooked code in a fresh interpreter."""
    req = json.dumps(dict(property=prop, tier=tier, seed=seed, obligation=ob_id, model=values))
    env = dict(os.environ)
    env.pop("VERIF_HOOKED", None)
    try:
        p = subprocess.run(
            [sys.executable, "-m", "symx.replay"], input=req, capture_output=True, text=True, cwd=ROOT, env=env, timeout=timeout
        )
    except subprocess.TimeoutExpired:
        return dict(error="replay timed out")
    if p.returncode != 0:
        return dict(error="replay process failed: %s" % p.stderr[-2000:])
    try:
        return json.loads(p.stdout.strip().splitlines()[-1])
    except (ValueError, IndexError):
        return dict(error="replay output unreadable: %s" % p.stdout[-500:])
