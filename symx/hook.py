"""Engine SX, part 2: run reamber's *current* source with a fixed table of call sites redirected.

``install()`` puts a MetaPathFinder in front of the import system that compiles every ``reamber.*``
module from /repo's working tree (byte-code caches are never used) after rewriting the call sites of
``REWRITE_TABLE`` to ``__sym_*__`` functions living in ``builtins``.  On concrete arguments each of those
functions behaves exactly like the original (checked by the translator validation, symx.selftest);
on proxies it has the symbolic meaning documented below.  Only *calls* are rewritten.
"""
from __future__ import annotations

import ast
import builtins
import importlib.abc
import importlib.machinery
import math
import struct as _struct
import sys
from fractions import Fraction as F

import numpy as np
import pandas as pd

from . import tokens
from .core import SymNum, SymBool, Q, Unsupported, concretize, isna, Engine

REWRITE_TABLE = [
    "int(x[,base])        -> token lookup; proxy: truncation toward zero (fresh Int k, k<=x<k+1)",
    "float(x)             -> token lookup; proxy: identity (exact real arithmetic)",
    "round(x[,n])         -> proxy: nearest multiple of 10^-n, either tie choice",
    "Fraction(n[,d])      -> proxy: n or n/d",
    "map(int|float, it)   -> element-wise the above",
    "<e>.astype(T), <e>.to_numpy(T) -> proxy cells: int = element-wise truncation, float = identity",
    "np.isnan(x)          -> proxy: False, None: True (object columns hold None where float64 holds NaN)",
    "np.lcm(a,b)          -> proxy: solver-driven concretisation, then numpy",
    "np.asarray / np.array(x, dtype=T) on cells holding proxies -> object array, T applied as in astype",
    "np.isclose(a,b,..)   -> proxy: |a-b| <= atol + rtol*|b| element-wise (forks); np.isfinite -> proxy: True",
    "unpack / struct.unpack(fmt, b) -> harness stub for marked fields, else struct.unpack",
    "yaml.safe_load / yaml.dump     -> harness stub at document level when installed, else PyYAML",
    "pandas Series/DataFrame.shift on object columns fills NaN (as for float64 columns) instead of None",
]

NAME_CALLS = {"int", "float", "round", "Fraction", "unpack"}
NP_CALLS = {"isnan", "lcm", "isclose", "isfinite", "asarray", "array"}
MOD_CALLS = {("struct", "unpack"): "unpack", ("yaml", "safe_load"): "yaml_safe_load", ("yaml", "dump"): "yaml_dump"}

REWRITES_DONE = {}  # module file -> number of rewritten call sites


class _T(ast.NodeTransformer):
    def __init__(self):
        self.n = 0

    @staticmethod
    def _name(node, ident):
        return ast.copy_location(ast.Name("__sym_%s__" % ident, ast.Load()), node)

    def visit_Call(self, node):
        self.generic_visit(node)
        f = node.func
        if isinstance(f, ast.Name):
            if f.id == "map" and node.args and isinstance(node.args[0], ast.Name) and node.args[0].id in ("int", "float"):
                node.args[0] = self._name(node.args[0], node.args[0].id)
                self.n += 1
            elif f.id in NAME_CALLS:
                node.func = self._name(f, f.id)
                self.n += 1
        elif isinstance(f, ast.Attribute):
            if f.attr == "to_numpy" and (node.args or node.keywords):
                node = ast.copy_location(
                    ast.Call(ast.Name("__sym_to_numpy__", ast.Load()), [f.value] + node.args, node.keywords), node
                )
                self.n += 1
            elif f.attr == "astype":
                node = ast.copy_location(
                    ast.Call(ast.Name("__sym_astype__", ast.Load()), [f.value] + node.args, node.keywords), node
                )
                self.n += 1
            elif isinstance(f.value, ast.Name):
                if f.value.id == "np" and f.attr in NP_CALLS:
                    node.func = self._name(f, "np_" + f.attr)
                    self.n += 1
                elif (f.value.id, f.attr) in MOD_CALLS:
                    node.func = self._name(f, MOD_CALLS[(f.value.id, f.attr)])
                    self.n += 1
        return node


class _Loader(importlib.machinery.SourceFileLoader):
    def source_to_code(self, data, path, *, _optimize=-1):
        tree = ast.parse(data, path)
        t = _T()
        tree = t.visit(tree)
        ast.fix_missing_locations(tree)
        REWRITES_DONE[str(path)] = t.n
        return compile(tree, path, "exec", dont_inherit=True, optimize=_optimize)

    def get_code(self, fullname):  # never read or write .pyc: always the current working tree
        path = self.get_filename(fullname)
        return self.source_to_code(self.get_data(path), path)


class _Finder(importlib.abc.MetaPathFinder):
    def find_spec(self, name, path, target=None):
        if name != "reamber" and not name.startswith("reamber."):
            return None
        spec = importlib.machinery.PathFinder.find_spec(name, path)
        if spec and isinstance(spec.loader, importlib.machinery.SourceFileLoader):
            spec.loader = _Loader(spec.loader.name, spec.loader.path)
        return spec


# ---------------------------------------------------------------------------------------------
# the redirected functions
# ---------------------------------------------------------------------------------------------
STUBS = {}  # name -> callable installed by a harness (unpack, yaml_safe_load, yaml_dump)


def sym_int(x=0, *a):
    v = tokens.detok(x)
    if v is not None:
        x = v
    if isinstance(x, SymNum):
        return x.trunc()
    if isinstance(x, Q):
        return math.trunc(x)
    return int(x, *a)


def sym_float(x=0.0):
    v = tokens.detok(x)
    if v is not None:
        x = v
    if isinstance(x, SymNum):
        return x
    if isinstance(x, Q) or (isinstance(x, F) and Engine.cur is not None):
        return Q(x)
    return float(x)


def sym_round(x, n=None):
    if isinstance(x, SymNum):
        return x.__round__(n)
    if isinstance(x, F):
        r = round(x) if n is None else round(x, n)
        return Q(r) if isinstance(r, F) else r
    return round(x) if n is None else round(x, n)


def sym_Fraction(n=0, d=None):
    if isinstance(n, SymNum) or isinstance(d, SymNum):
        return n if d is None else n / d
    return F(n, d)


def _has_sym(values):
    return any(isinstance(v, SymNum) for v in values)


def _cast_cell(v, kind):
    if isna(v):
        if kind == "int":
            raise ValueError("cannot convert float NaN to integer")
        return float("nan")
    if kind == "int":
        return sym_int(v)
    if kind == "float":
        return v if isinstance(v, SymNum) else sym_float(v)
    if kind == "bool":
        return bool(v)
    raise Unsupported("astype(%s) on a column holding symbolic values" % kind)


def _kind(dtype):
    if dtype in (int, "int", "int64", "int32", np.int64, np.int32):
        return "int"
    if dtype in (float, "float", "float64", np.float64):
        return "float"
    if dtype in (bool, "bool"):
        return "bool"
    if dtype in (object, "object", "O"):
        return "object"
    try:
        k = np.dtype(dtype).kind
        return {"i": "int", "f": "float", "b": "bool", "O": "object"}.get(k, str(dtype))
    except TypeError:
        return str(dtype)


def _cast_series(s, dtype, kw):
    if s.dtype != object or not _has_sym(s.array):
        return s.astype(dtype, **kw)
    k = _kind(dtype)
    if k == "object":
        return s.astype(object)
    out = pd.Series([_cast_cell(v, k) for v in s.array], index=s.index, name=s.name, dtype=object)
    return out


def sym_astype(obj, dtype, *a, **kw):
    if isinstance(obj, pd.Series):
        return _cast_series(obj, dtype, kw)
    if isinstance(obj, pd.DataFrame):
        if isinstance(dtype, dict):
            if not any(obj[c].dtype == object and _has_sym(obj[c].array) for c in dtype if c in obj):
                return obj.astype(dtype, *a, **kw)
            out = obj.copy()
            for c, d in dtype.items():
                out[c] = _cast_series(obj[c], d, kw)
            return out
        if not any(obj[c].dtype == object and _has_sym(obj[c].array) for c in obj.columns):
            return obj.astype(dtype, *a, **kw)
        out = obj.copy()
        for c in obj.columns:
            out[c] = _cast_series(obj[c], dtype, kw)
        return out
    if isinstance(obj, np.ndarray) and obj.dtype == object and _has_sym(obj.ravel()):
        k = _kind(dtype)
        flat = [_cast_cell(v, k) for v in obj.ravel()]
        out = np.empty(len(flat), dtype=object)
        out[:] = flat
        return out.reshape(obj.shape)
    return obj.astype(dtype, *a, **kw)


def sym_to_numpy(obj, dtype=None, *a, **kw):
    """<e>.to_numpy(dtype): cells holding proxies stay objects (float = identity, int = truncation)"""
    if isinstance(obj, (pd.Series, pd.DataFrame)) and dtype is not None:
        cells = obj.array if isinstance(obj, pd.Series) else obj.to_numpy().ravel()
        if _has_sym(cells):
            arr = obj.to_numpy(*a, **kw)
            return sym_astype(arr, dtype)
    return obj.to_numpy(dtype, *a, **kw)


def _sym_np_mk(fn):
    def mk(x, *a, **kw):
        dtype = kw.get("dtype", a[0] if a else None)
        cells, _shape = _cells(x)
        if dtype is not None and cells is not None and _has_sym(cells):
            arr = np.array(x, dtype=object)  # proxies cannot live in a typed array: a fresh object array
            return sym_astype(arr, dtype)
        return fn(x, *a, **kw)  # concrete data: exactly the original function (np.asarray keeps returning views)

    return mk


sym_np_asarray = _sym_np_mk(np.asarray)
sym_np_array = _sym_np_mk(np.array)


def sym_np_isnan(x, *a, **kw):
    if isinstance(x, SymNum):
        return False
    if x is None:
        return True
    if isinstance(x, F):
        return False
    if isinstance(x, pd.Series) and x.dtype == object:
        return pd.Series([sym_np_isnan(v) for v in x.array], index=x.index, name=x.name, dtype=bool)
    if isinstance(x, np.ndarray) and x.dtype == object:
        return np.array([sym_np_isnan(v) for v in x.ravel()], dtype=bool).reshape(x.shape)
    return np.isnan(x, *a, **kw)


def _cells(x):
    if isinstance(x, pd.Series):
        return list(x.array) if x.dtype == object else x.tolist(), ("series", x.index, x.name)
    if isinstance(x, np.ndarray):
        return list(x.ravel()), ("array", x.shape, None)
    return None, None


def sym_np_isfinite(x, *a, **kw):
    cells, shape = _cells(x)
    if isinstance(x, SymNum):
        return True
    if cells is not None and _has_sym(cells):
        out = [True if isinstance(v, SymNum) else (not isna(v) and bool(np.isfinite(float(v)))) for v in cells]
        return pd.Series(out, index=shape[1], name=shape[2]) if shape[0] == "series" else np.array(out, dtype=bool).reshape(shape[1])
    return np.isfinite(x, *a, **kw)


def sym_np_isclose(a, b, rtol=1e-05, atol=1e-08, equal_nan=False):
    ca, sa = _cells(a)
    cb, sb = _cells(b)
    symbolic = isinstance(a, SymNum) or isinstance(b, SymNum) or (ca is not None and _has_sym(ca)) or (cb is not None and _has_sym(cb))
    if not symbolic:
        return np.isclose(a, b, rtol=rtol, atol=atol, equal_nan=equal_nan)
    shape = sa or sb
    n = len(ca) if ca is not None else (len(cb) if cb is not None else 1)
    xs = ca if ca is not None else [a] * n
    ys = cb if cb is not None else [b] * n
    out = []
    for x, y in zip(xs, ys):
        if isna(x) or isna(y):
            out.append(bool(equal_nan and isna(x) and isna(y)))
            continue
        d = x - y
        d = d if bool(d >= 0) else -d
        m = y if bool(y >= 0) else -y
        out.append(bool(d <= F(atol) + F(rtol) * m))
    if shape is None:
        return out[0]
    return np.array(out, dtype=bool).reshape(shape[1]) if shape[0] == "array" else np.array(out, dtype=bool)


def sym_np_lcm(a, b, *r, **kw):
    if isinstance(a, SymNum):
        a = concretize(a)
    if isinstance(b, SymNum):
        b = concretize(b)
    if isinstance(a, F):
        a = int(a)
    if isinstance(b, F):
        b = int(b)
    return np.lcm(a, b, *r, **kw)


def sym_unpack(fmt, data):
    f = STUBS.get("unpack")
    if f is not None:
        r = f(fmt, data)
        if r is not None:
            return r
    return _struct.unpack(fmt, data)


def sym_yaml_safe_load(*a, **kw):
    f = STUBS.get("yaml_safe_load")
    if f is not None:
        return f(*a, **kw)
    import yaml

    return yaml.safe_load(*a, **kw)


def sym_yaml_dump(*a, **kw):
    f = STUBS.get("yaml_dump")
    if f is not None:
        return f(*a, **kw)
    import yaml

    return yaml.dump(*a, **kw)


IMPL = {
    "int": sym_int,
    "float": sym_float,
    "round": sym_round,
    "Fraction": sym_Fraction,
    "astype": sym_astype,
    "to_numpy": sym_to_numpy,
    "np_isnan": sym_np_isnan,
    "np_lcm": sym_np_lcm,
    "np_isclose": sym_np_isclose,
    "np_asarray": sym_np_asarray,
    "np_array": sym_np_array,
    "np_isfinite": sym_np_isfinite,
    "unpack": sym_unpack,
    "yaml_safe_load": sym_yaml_safe_load,
    "yaml_dump": sym_yaml_dump,
}

_installed = False


def _patch_pandas_object_fill():
    """Object-dtype columns stand for float64 columns: ``shift`` must fill with NaN (as it does for float64), not None."""
    from pandas._libs import lib as _lib

    for cls in (pd.Series, pd.DataFrame):
        orig = cls.shift

        def shift(self, periods=1, freq=None, axis=0, fill_value=_lib.no_default, suffix=None, _orig=orig):
            if fill_value is _lib.no_default:
                objcols = self.dtype == object if isinstance(self, pd.Series) else any(t == object for t in self.dtypes)
                if objcols:
                    fill_value = np.nan
            return _orig(self, periods=periods, freq=freq, axis=axis, fill_value=fill_value, suffix=suffix)

        cls.shift = shift


def install():
    """Must run before the first ``import reamber``."""
    global _installed
    if _installed:
        return
    if any(m == "reamber" or m.startswith("reamber.") for m in sys.modules):
        raise RuntimeError("symx.hook.install() must precede the first import of reamber")
    sys.dont_write_bytecode = True
    for k, v in IMPL.items():
        setattr(builtins, "__sym_%s__" % k, v)
    sys.meta_path.insert(0, _Finder())
    _patch_pandas_object_fill()
    _installed = True


def installed():
    return _installed
