"""Engine SX, part 1: symbolic numbers in Laurent-polynomial normal form, symbolic booleans, and the
path explorer (depth-first search by re-execution with a forced decision prefix).

A symbolic number (SymNum) lives in object-dtype cells of *real* pandas frames.  Every arithmetic
operation is done on the normal form (dict monomial -> Fraction); comparisons give SymBool whose
``__bool__`` forks the execution through the SMT solver (z3).  See /verif/DESIGN.md section 2.1.
"""
from __future__ import annotations

import itertools
import os
import math
import time
from fractions import Fraction as F

import numpy as np
import z3


class Unsupported(BaseException):
    """An operation on a symbolic value that the engine cannot follow (path becomes inconclusive)."""


class PathAbort(BaseException):
    """The current path cannot be continued (solver said unknown, nondeterministic replay, ...)."""


class Infeasible(BaseException):
    """An assumption of the harness contradicts the path condition: the path is outside the domain (pruned, not a verdict)."""


class Budget(BaseException):
    """Wall-clock or path budget of the obligation exhausted."""


class Q(F):
    """Exact rational constant that prints like the float a real user would have (so that a constant
    produced by symbolic cancellation, e.g. ``x - x + 1.5``, is written as ``1.5`` and not ``3/2``)."""

    __slots__ = ()

    def _f(self):
        return int(self) if self.denominator == 1 else float(self)

    def __str__(self):
        return str(self._f())

    __repr__ = __str__

    def __format__(self, spec):
        return format(self._f(), spec)


# ---------------------------------------------------------------------------------------------
# Laurent polynomials: {monomial: Fraction}; monomial = tuple of (var, exp) sorted by var
# ---------------------------------------------------------------------------------------------
def _mono_mul(a, b):
    if not a:
        return b
    if not b:
        return a
    d = dict(a)
    for v, e in b:
        n = d.get(v, 0) + e
        if n:
            d[v] = n
        else:
            del d[v]
    return tuple(sorted(d.items()))


def p_add(p, q, s=1):
    r = dict(p)
    for m, c in q.items():
        n = r.get(m, 0) + s * c
        if n:
            r[m] = n
        else:
            r.pop(m, None)
    return r


def p_mul(p, q):
    r = {}
    for (m1, c1), (m2, c2) in itertools.product(p.items(), q.items()):
        m = _mono_mul(m1, m2)
        n = r.get(m, 0) + c1 * c2
        if n:
            r[m] = n
        else:
            r.pop(m, None)
    return r


def p_const(p):
    if not p:
        return F(0)
    if len(p) == 1 and () in p:
        return p[()]
    return None


def p_key(p):
    return tuple(sorted(p.items()))


def is_int_var(name):
    return name.startswith("i:") or name.startswith("k!")


def p_integral(p):
    """True if the polynomial is syntactically integer valued."""
    for m, c in p.items():
        if c.denominator != 1:
            return False
        for v, e in m:
            if e < 0 or not is_int_var(v):
                return False
    return True


def isna(o):
    return o is None or (isinstance(o, float) and o != o)


def lift(x):
    """python number -> polynomial, or None if x is not a finite number."""
    if isinstance(x, SymNum):
        return x.p
    if isinstance(x, (bool, np.bool_)):
        return {(): F(1)} if x else {}
    if isinstance(x, (int, np.integer)):
        x = int(x)
        return {(): F(x)} if x else {}
    if isinstance(x, F):
        return {(): F(x)} if x else {}
    if isinstance(x, (float, np.floating)):
        x = float(x)
        if x != x or x in (math.inf, -math.inf):
            return None
        return {(): F(x)} if x else {}
    return None


_zvars = {}


def zvar(name):
    v = _zvars.get(name)
    if v is None:
        v = _zvars[name] = z3.Int(name) if is_int_var(name) else z3.Real(name)
    return v


_z3cache = {}


def _ratval(c):
    return z3.RealVal(c.numerator) if c.denominator == 1 else z3.Q(c.numerator, c.denominator)


def to_z3(p):
    k = p_key(p)
    t = _z3cache.get(k)
    if t is not None:
        return t
    terms = []
    for m, c in k:
        t = None
        den = None
        for v, e in m:
            zv = zvar(v)
            if z3.is_int(zv):
                zv = z3.ToReal(zv)
            for _ in range(abs(e)):
                if e > 0:
                    t = zv if t is None else t * zv
                else:
                    den = zv if den is None else den * zv
        if t is None:
            t = _ratval(c)
        elif c != 1:
            t = _ratval(c) * t
        if den is not None:
            t = t / den
        terms.append(t)
    if not terms:
        t = z3.RealVal(0)
    elif len(terms) == 1:
        t = terms[0]
    else:
        t = z3.Sum(terms)
    if len(_z3cache) > 200000:
        _z3cache.clear()
    _z3cache[k] = t
    return t


# relation masks over sign(p): LT=1, EQ=2, GT=4
LT, EQ, GT = 1, 2, 4
_FLIP = {0: 0, 1: 4, 2: 2, 3: 6, 4: 1, 5: 5, 6: 3, 7: 7}


def norm_atom(p, mask):
    """Normalise ``p (mask) 0`` so that syntactically equivalent atoms share a key."""
    lead = min(p)
    c = p[lead]
    if c != 1:
        p = {m: v / c for m, v in p.items()}
        if c < 0:
            mask = _FLIP[mask]
    return p_key(p), mask


def _mask_z3(t, mask):
    zero = z3.RealVal(0)
    return {1: t < zero, 2: t == zero, 3: t <= zero, 4: t > zero, 5: t != zero, 6: t >= zero}[mask]


class SymBool:
    """A symbolic truth value.  ``atom`` = (key, mask) when it is a single sign condition."""

    __slots__ = ("t", "atom")

    def __init__(self, t, atom=None):
        self.t = t
        self.atom = atom

    @staticmethod
    def of_atom(p, mask):
        key, mask = norm_atom(p, mask)
        return SymBool(_mask_z3(to_z3(dict(key)), mask), (key, mask))

    def __bool__(self):
        E = Engine.cur
        if E is None:
            raise Unsupported("symbolic bool outside an exploration")
        return E.branch(self)

    def _other(self, o):
        if isinstance(o, SymBool):
            return o.t
        if isinstance(o, (bool, np.bool_)):
            return z3.BoolVal(bool(o))
        return None

    def __and__(self, o):
        if isinstance(o, (bool, np.bool_)):
            return self if o else False
        t = self._other(o)
        if t is None:
            return NotImplemented
        return SymBool(z3.And(self.t, t))

    __rand__ = __and__

    def __or__(self, o):
        if isinstance(o, (bool, np.bool_)):
            return True if o else self
        t = self._other(o)
        if t is None:
            return NotImplemented
        return SymBool(z3.Or(self.t, t))

    __ror__ = __or__

    def __invert__(self):
        if self.atom is not None:
            key, mask = self.atom
            return SymBool(z3.Not(self.t), (key, 7 ^ mask))
        return SymBool(z3.Not(self.t))

    def __eq__(self, o):
        t = self._other(o)
        if t is None:
            return NotImplemented
        return SymBool(self.t == t)

    def __ne__(self, o):
        t = self._other(o)
        if t is None:
            return NotImplemented
        return SymBool(self.t != t)

    __hash__ = None

    def __repr__(self):
        return "SymBool(%s)" % self.t


def s_and(*cs):
    """Conjunction of python bools / SymBools without forking."""
    out = []
    for c in cs:
        if isinstance(c, SymBool):
            out.append(c.t)
        elif not c:
            return False
    if not out:
        return True
    return SymBool(z3.And(*out)) if len(out) > 1 else SymBool(out[0])


def s_or(*cs):
    out = []
    for c in cs:
        if isinstance(c, SymBool):
            out.append(c.t)
        elif c:
            return True
    if not out:
        return False
    return SymBool(z3.Or(*out)) if len(out) > 1 else SymBool(out[0])


def s_not(c):
    if isinstance(c, SymBool):
        return ~c
    return not c


def s_implies(a, b):
    return s_or(s_not(a), b)


class SymNum:
    __slots__ = ("p",)

    def __init__(self, p):
        self.p = p

    # -- helpers ---------------------------------------------------------------------------
    @property
    def t(self):
        return to_z3(self.p)

    def const(self):
        return p_const(self.p)

    @staticmethod
    def mk(p):
        c = p_const(p)
        if c is not None:
            return Q(c)
        return SymNum(p)

    def _ar(self, o, f):
        if isna(o):
            return float("nan")
        q = lift(o)
        if q is None:
            return NotImplemented
        return SymNum.mk(f(self.p, q))

    # -- arithmetic ------------------------------------------------------------------------
    def __add__(self, o):
        return self._ar(o, p_add)

    __radd__ = __add__

    def __sub__(self, o):
        return self._ar(o, lambda a, b: p_add(a, b, -1))

    def __rsub__(self, o):
        return self._ar(o, lambda a, b: p_add(b, a, -1))

    def __mul__(self, o):
        return self._ar(o, p_mul)

    __rmul__ = __mul__

    def __neg__(self):
        return SymNum({m: -c for m, c in self.p.items()})

    def __pos__(self):
        return self

    def __abs__(self):
        return self if (self >= 0) else -self

    @staticmethod
    def _div(a, b):
        if not b:
            raise ZeroDivisionError("division by zero")
        cb = p_const(b)
        if cb is None:
            E = Engine.cur
            if E is not None and E.branch(SymBool.of_atom(b, EQ)):
                raise ZeroDivisionError("float division by zero")
        if len(b) == 1:
            ((m, c),) = b.items()
            return p_mul(a, {tuple((v, -e) for v, e in m): 1 / c})
        if len(a) == len(b):  # a == c*b ?
            ks = list(b)
            if all(k in a for k in ks):
                c = a[ks[0]] / b[ks[0]]
                if all(a[k] == c * b[k] for k in ks):
                    return {(): c} if c else {}
        E = Engine.cur
        if E is None:
            raise Unsupported("symbolic quotient outside an exploration")
        key = ("div", p_key(a), p_key(b))
        q = E.aux.get(key)
        if q is None:
            q = E.newvar("q")
            E.aux[key] = q
            E.add_side(to_z3({((q, 1),): F(1)}) * to_z3(b) == to_z3(a))
        return {((q, 1),): F(1)}

    def __truediv__(self, o):
        return self._ar(o, SymNum._div)

    def __rtruediv__(self, o):
        return self._ar(o, lambda a, b: SymNum._div(b, a))

    def __pow__(self, o):
        if isinstance(o, (int, np.integer)) and not isinstance(o, bool):
            o = int(o)
            r = {(): F(1)}
            base = self.p if o >= 0 else SymNum._div({(): F(1)}, self.p)
            for _ in range(abs(o)):
                r = p_mul(r, base)
            return SymNum.mk(r)
        raise Unsupported("symbolic ** %r" % (o,))

    def floor(self):
        c = self.const()
        if c is not None:
            return math.floor(c)
        if p_integral(self.p):
            return self
        E = Engine.cur
        if E is None:
            raise Unsupported("symbolic floor outside an exploration")
        key = ("floor", p_key(self.p))
        k = E.aux.get(key)
        if k is None:
            k = E.newvar("k")
            E.aux[key] = k
            kz = z3.ToReal(zvar(k))
            E.add_side(z3.And(kz <= self.t, self.t < kz + 1))
        return SymNum({((k, 1),): F(1)})

    def ceil(self):
        return -((-self).floor())

    def trunc(self):
        c = self.const()
        if c is not None:
            return math.trunc(c)
        if p_integral(self.p):
            return self
        if self >= 0:
            return self.floor()
        return -((-self).floor())

    __floor__ = floor
    __ceil__ = ceil
    __trunc__ = trunc

    def __round__(self, n=None):
        """Round half to even is modelled as *nearest with either tie choice* (sound over-approx.)."""
        scale = F(10) ** (n or 0)
        x = self * scale
        if not isinstance(x, SymNum):
            return round(x) / scale if n else round(x)
        E = Engine.cur
        key = ("round", p_key(x.p))
        k = E.aux.get(key)
        if k is None:
            k = E.newvar("k")
            E.aux[key] = k
            kz = z3.ToReal(zvar(k))
            E.add_side(z3.And(2 * (x.t - kz) <= 1, 2 * (kz - x.t) <= 1))
        r = SymNum({((k, 1),): F(1)})
        return r / scale if n else r

    def __floordiv__(self, o):
        q = self.__truediv__(o)
        if q is NotImplemented or isna(q):
            return q
        return q.floor() if isinstance(q, SymNum) else Q(math.floor(q))

    def __rfloordiv__(self, o):
        q = self.__rtruediv__(o)
        if q is NotImplemented or isna(q):
            return q
        return q.floor() if isinstance(q, SymNum) else Q(math.floor(q))

    def __mod__(self, o):
        q = self.__floordiv__(o)
        if q is NotImplemented or isna(q):
            return q
        return self - q * o

    def __rmod__(self, o):
        q = self.__rfloordiv__(o)
        if q is NotImplemented or isna(q):
            return q
        return o - q * self

    def __divmod__(self, o):
        q = self.__floordiv__(o)
        return q, self - q * o

    # -- comparisons -----------------------------------------------------------------------
    def _cmp(self, o, mask):
        if isna(o):
            return mask == 5  # only != is true against NaN
        q = lift(o)
        if q is None:
            return NotImplemented
        d = p_add(self.p, q, -1)
        c = p_const(d)
        if c is not None:
            s = LT if c < 0 else (EQ if c == 0 else GT)
            return bool(s & mask)
        return SymBool.of_atom(d, mask)

    def __lt__(self, o):
        return self._cmp(o, 1)

    def __le__(self, o):
        return self._cmp(o, 3)

    def __gt__(self, o):
        return self._cmp(o, 4)

    def __ge__(self, o):
        return self._cmp(o, 6)

    def __eq__(self, o):
        return self._cmp(o, 2)

    def __ne__(self, o):
        return self._cmp(o, 5)

    def __hash__(self):
        return 0

    def __bool__(self):
        return bool(self != 0)

    # -- leaving the symbolic world ----------------------------------------------------------
    def __float__(self):
        c = self.const()
        if c is not None:
            return float(c)
        raise Unsupported("float() of a symbolic value at C level")

    def __index__(self):
        v = concretize(self)
        if isinstance(v, int):
            return v
        raise TypeError("symbolic value used as index is not an integer")

    def __int__(self):
        return int(concretize(self.trunc()))

    @property
    def numerator(self):
        return F(concretize(self)).numerator

    @property
    def denominator(self):
        return F(concretize(self)).denominator

    def is_integer(self):
        return bool(self == self.floor())

    def __repr__(self):
        return "S(%s)" % pretty(self.p)

    def __str__(self):
        from . import tokens

        return tokens.tok(self)

    def __format__(self, spec):
        from . import tokens

        return tokens.fmt(self, spec)

    def __deepcopy__(self, memo):
        return self

    def __copy__(self):
        return self

    def __reduce__(self):
        return (SymNum, (self.p,))


def pretty(p):
    out = []
    for m, c in sorted(p.items()):
        mono = "*".join(v if e == 1 else "%s^%d" % (v, e) for v, e in m)
        if not mono:
            out.append(str(c))
        elif c == 1:
            out.append(mono)
        else:
            out.append("%s*%s" % (c, mono))
    return " + ".join(out) if out else "0"


def concretize(x, limit=64):
    """Turn a symbolic value into a concrete one by solver-driven case split (complete for finite
    ranges; the path is abandoned as unsupported when ``limit`` values were not enough)."""
    if not isinstance(x, SymNum):
        return x
    c = x.const()
    if c is not None:
        return int(c) if c.denominator == 1 else c
    E = Engine.cur
    if E is None:
        raise Unsupported("concretize outside an exploration")
    for _ in range(limit):
        m = E.get_model()
        v = m.eval(x.t, model_completion=True)
        f = model_fraction(v)
        if x == f:
            return int(f) if f.denominator == 1 else f
    raise Unsupported("concretisation limit (%d values) reached" % limit)


def model_fraction(v):
    if z3.is_int_value(v):
        return F(v.as_long())
    if z3.is_rational_value(v):
        return F(v.numerator_as_long(), v.denominator_as_long())
    if z3.is_algebraic_value(v):
        a = v.approx(30)
        return F(a.numerator_as_long(), a.denominator_as_long())
    raise PathAbort("model value %r is not numeric" % (v,))


def real(name):
    return SymNum({((name, 1),): F(1)})


def intvar(name):
    return SymNum({(("i:" + name, 1),): F(1)})


# ---------------------------------------------------------------------------------------------
class Engine:
    cur: "Engine | None" = None

    def __init__(self, query_timeout_ms=10000, deadline=None, max_paths=20000):
        self.solver = z3.Solver()
        self.solver.set("timeout", query_timeout_ms)
        import os

        zs = int(os.environ.get("VERIF_Z3_SEED", "0") or 0)
        if zs:  # different seeds give different models (used to shake out model-dependent flaws of harnesses)
            self.solver.set("random_seed", zs)
            z3.set_param("smt.random_seed", zs)
        self.deadline = deadline
        self.max_paths = max_paths
        self.queries = 0
        self.solver_s = 0.0
        self.paths = 0
        self.unknowns = 0
        self.work = []
        self._reset_path([])

    # -- per path state ------------------------------------------------------------------------
    def _reset_path(self, prefix):
        self.prefix = prefix
        self.decisions = []
        self.dkeys = []
        self.facts = {}
        self.tie_keys = set()
        self.soft = []  # preferences for the validation model only (never part of a verification condition)
        self.aux = {}
        self.fresh = 0
        self.model = None
        self.npc = 0

    def newvar(self, kind):
        self.fresh += 1
        return "%s!%d" % (kind, self.fresh)

    def _check(self, *assumptions):
        if self.deadline is not None and time.time() > self.deadline:
            raise Budget("time budget exhausted")
        t = time.time()
        r = self.solver.check(*assumptions)
        self.queries += 1
        self.solver_s += time.time() - t
        if r == z3.unknown:
            self.unknowns += 1
        return r

    def get_model(self):
        if self.model is None:
            r = self._check()
            if r != z3.sat:
                raise PathAbort("path condition not satisfiable: %s" % r)
            self.model = self.solver.model()
        return self.model

    def interior_model(self):
        """A model of the path condition in which every non-strict order fact holds strictly whenever the path allows it
        (used for the float64 validation run: a tie exactly on a branch boundary is where float rounding flips a branch)."""
        strict, margin, fact_terms = [], [], []
        small_used = False
        # a path that contains an equality between real-valued terms (x <= k and x >= k both learned) is a tie path: doubles
        # cannot realise it in general (0.04 - 0.03 != 0.01), so its float run is not comparable
        tie_path = any(not p_integral(dict(key)) and len(dict(key)) > 1 for key in self.tie_keys)
        mu = z3.RealVal("1/97")  # (not a round number: models built from it are not 2-decimal or integral by accident) above the tolerance of the concrete comparisons (1e-7 + 1e-6 |x|) for |x| <= 1000
        for key, mask in self.facts.items():
            if p_integral(dict(key)):
                continue  # integer-valued comparisons are exact in doubles: no margin (a margin would only exclude end points)
            t = to_z3(dict(key))
            if mask in (3, 6):
                strict.append(t != 0)
            # (a margin keeps the strictness through the conversion of the model to doubles)
            if mask in (1, 3):
                margin.append(t <= -mu)
                fact_terms.append((t, -1))
            elif mask in (4, 6):
                margin.append(t >= mu)
                fact_terms.append((t, 1))
        margin = margin + list(self.soft)
        if margin:
            # all margins at once; where the path itself forces an equality (x <= k and x >= k) the offending margins are found
            # through unsat cores and dropped, the others are kept
            t0 = time.time()
            self.solver.push()
            try:
                ps = []
                for i, c in enumerate(margin):
                    pb = z3.Bool("__margin%d" % i)
                    self.solver.add(z3.Implies(pb, c))
                    ps.append(pb)
                active = list(ps)
                model = None
                for _ in range(10):
                    self.queries += 1
                    r = self.solver.check(*active)
                    if r == z3.sat:
                        model = self.solver.model()
                        break
                    if r != z3.unsat:
                        break
                    core = {str(c) for c in self.solver.unsat_core()}
                    if not core:
                        break
                    # preferences give way before margins do
                    soft_names = {str(pb) for pb in ps[len(ps) - len(self.soft):]}
                    drop = (core & soft_names) or core
                    active = [pb for pb in active if str(pb) not in drop]
                    if not active:
                        break
                if model is None:
                    # the cores did not converge: start from no margins at all and add them back greedily
                    self.queries += 1
                    if self.solver.check() == z3.sat:
                        model, active = self.solver.model(), []
                if model is not None and len(active) < len(ps):
                    # cores are not minimal: put the dropped margins back one at a time where the path allows it; a margin that
                    # does not fit (a branch cell narrower than 0.01) is tried again at 1e-4 and 1e-6
                    names = {str(a) for a in active}
                    n_facts = len(ps) - len(self.soft)
                    for i, pb in enumerate(ps):
                        if str(pb) in names:
                            continue
                        self.queries += 1
                        if self.solver.check(*(active + [pb])) == z3.sat:
                            active.append(pb)
                            names.add(str(pb))
                            model = self.solver.model()
                            continue
                        if i >= n_facts:
                            continue
                        for k, small in enumerate(("1/9973", "1/999983")):
                            # the same fact with a smaller margin
                            fact = fact_terms[i]
                            sm = z3.RealVal(small)
                            c2 = (fact[0] <= -sm) if fact[1] < 0 else (fact[0] >= sm)
                            qb = z3.Bool("__margin%d_%d" % (i, k))
                            self.solver.add(z3.Implies(qb, c2))
                            self.queries += 1
                            if self.solver.check(*(active + [qb])) == z3.sat:
                                active.append(qb)
                                model = self.solver.model()
                                small_used = True
                                break
            finally:
                self.solver.pop()
                self.solver_s += time.time() - t0
            if model is not None:
                n_hard = len(ps) - len(self.soft)
                act = {str(a) for a in active}
                return model, (not tie_path) and all(str(pb) in act or any(("%s_%d" % (pb, k)) in act for k in (0, 1)) for pb in ps[:n_hard])
        if not strict:
            return self.get_model(), True
        r = self._check(*strict)
        if r == z3.sat:
            return self.solver.model(), True
        return self.get_model(), False

    def _add(self, t):
        self.solver.add(t)
        self.npc += 1
        if self.model is not None:
            try:
                ok = z3.is_true(self.model.eval(t, model_completion=True))
            except z3.Z3Exception:
                ok = False
            if not ok:
                self.model = None

    def add_side(self, t):
        self._add(t)

    def _learn(self, atom, truth):
        if atom is None:
            return
        key, mask = atom
        if not truth:
            mask = 7 ^ mask
        old = self.facts.get(key, 7)
        self.facts[key] = old & mask
        if old & mask == 2 and old != 2 and mask != 2:
            self.tie_keys.add(key)  # x <= k and x >= k learned from two separate decisions: an exact tie

    def assume(self, cond):
        if isinstance(cond, SymBool):
            atom = cond.atom
            if atom is not None:
                known = self.facts.get(atom[0], 7)
                if known & atom[1] == known:
                    return
                if known & atom[1] == 0:
                    raise Infeasible("assumption contradicts the path condition")
            self._add(cond.t)
            self._learn(cond.atom, True)
            if self.model is None and self.decisions:
                # the model no longer fits: make sure the path is still feasible (prunes out-of-domain paths early)
                r = self._check()
                if r == z3.unsat:
                    raise Infeasible("assumption contradicts the path condition")
                if r == z3.sat:
                    self.model = self.solver.model()
        elif not cond:
            raise Infeasible("assumption is false")

    def branch(self, sb: SymBool) -> bool:
        atom = sb.atom
        if atom is not None:
            known = self.facts.get(atom[0], 7)
            if known & atom[1] == known:
                return True
            if known & atom[1] == 0:
                return False
        t = sb.t
        i = len(self.decisions)
        dkey = atom if atom is not None else t.sexpr()
        if i < len(self.prefix):
            d, want = self.prefix[i]
            if want != dkey:
                raise PathAbort("non-deterministic re-execution at decision %d" % i)
        else:
            nt = z3.Not(t)
            mt = None
            if self.model is not None:
                try:
                    mt = z3.is_true(self.model.eval(t, model_completion=True))
                except z3.Z3Exception:
                    mt = None
            if mt is True:
                rt, rf = z3.sat, self._check(nt)
                if rf == z3.sat:
                    other_model = self.solver.model()
            elif mt is False:
                rf, rt = z3.sat, self._check(t)
                if rt == z3.sat:
                    other_model = self.solver.model()
            else:
                rt = self._check(t)
                mdl_t = self.solver.model() if rt == z3.sat else None
                rf = self._check(nt)
                mdl_f = self.solver.model() if rf == z3.sat else None
            if rt == z3.sat and rf == z3.sat:
                d = True
                self.work.append(self.decisions + [(False, dkey)])
                if mt is None:
                    self.model = mdl_t
                elif mt is False:
                    self.model = other_model
            elif rt == z3.sat and rf == z3.unsat:
                d = True
                if mt is None:
                    self.model = mdl_t
            elif rf == z3.sat and rt == z3.unsat:
                d = False
                if mt is None:
                    self.model = mdl_f
            elif rt == z3.unsat and rf == z3.unsat:
                raise PathAbort("path condition became unsatisfiable")
            else:
                raise PathAbort("solver returned unknown on a branch (%s/%s)" % (rt, rf))
        self.decisions.append((d, dkey))
        self._add(t if d else z3.Not(t))
        self._learn(atom, d)
        return d

    # -- exploration ---------------------------------------------------------------------------
    def explore(self, run_path):
        """``run_path()`` executes one path and returns whatever the caller wants collected.
        Yields (status, payload) per path with the solver still holding that path's condition."""
        self.work = [[]]
        while self.work:
            if self.paths >= self.max_paths:
                raise Budget("path budget (%d) exhausted" % self.max_paths)
            prefix = self.work.pop()
            self._reset_path(prefix)
            self.solver.push()
            Engine.cur = self
            try:
                try:
                    out = run_path()
                    status = "ok"
                except PathAbort as e:
                    out, status = str(e), "abort"
                except Infeasible as e:
                    out, status = str(e), "pruned"
                except Unsupported as e:
                    out, status = str(e), "unsupported"
                self.paths += 1
                yield status, out
            finally:
                Engine.cur = None
                self.solver.pop()

    def prove(self, cond):
        """Is ``cond`` valid under the current path condition?  -> ('proved'|'refuted'|'unknown', model)"""
        if isinstance(cond, SymBool):
            r = self._check(z3.Not(cond.t))
            if r == z3.unsat:
                return "proved", None
            if r == z3.sat:
                return "refuted", self.solver.model()
            return "unknown", None
        if cond:
            return "proved", None
        return "refuted", self.get_model()
