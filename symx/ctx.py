"""Obligation context: the same harness function runs in three modes

* ``sym``    - hooked reamber, inputs are solver variables (SymNum), facets are formulas;
* ``conc``   - hooked reamber, inputs are the floats of a path model (concolic validation);
* ``replay`` - *unhooked* reamber in a fresh interpreter, inputs are the floats of a counterexample.

In the two concrete modes comparisons are lenient (a facet only fails when it is violated by more
than the tolerance), so a counterexample is confirmed only when it clearly reproduces.
"""
from __future__ import annotations

import math
from fractions import Fraction as F

from . import tokens
from .core import SymNum, SymBool, Q, Engine, real, intvar, s_and, s_or, s_not, isna, lift

RTOL = 1e-6
ATOL = 1e-7


class OutOfDomain(Exception):
    """A concrete run left the assumed input domain (float rounding of a model value)."""


def _num(x):
    return isinstance(x, (int, float, F, SymNum)) or hasattr(x, "dtype") and getattr(x, "shape", None) == ()


class Ctx:
    def __init__(self, mode, values=None, params=None):
        assert mode in ("sym", "conc", "replay")
        self.mode = mode
        self.sym = mode == "sym"
        self.values = values or {}
        self.inputs = []  # (name, kind)
        self.facets = []  # (name, cond)
        self.obs = []  # (name, value)
        self.notes = []
        self.params = params or {}
        self._names = {}

    # -- inputs ----------------------------------------------------------------------------------
    def real(self, name):
        self.inputs.append((name, "real"))
        if self.sym:
            x = real(name)
            E = Engine.cur
            if E is not None:
                # the float64 validation run prefers moderate values (|x| <= 1000 and, unless zero, |x| >= 1/100): solver models
                # such as 1e-18 only exercise float overflow.  Preferences never enter a verification condition.
                import z3

                t = x.t
                E.soft.append(z3.And(t <= 1000, t >= -1000))
                E.soft.append(z3.Or(t == 0, t >= z3.RealVal("1/89"), t <= z3.RealVal("-1/89")))
            return x
        v = self.values.get(name, "0") if getattr(self, "missing_as_zero", False) else self.values[name]
        return float(F(v))

    def int(self, name, lo=None, hi=None):
        self.inputs.append(("i:" + name, "int"))
        if self.sym:
            x = intvar(name)
            if lo is not None:
                self.assume(x >= lo)
            if hi is not None:
                self.assume(x <= hi)
            return x
        v = int(F(self.values.get("i:" + name, lo if lo is not None else 0) if getattr(self, "missing_as_zero", False) else self.values["i:" + name]))
        if (lo is not None and v < lo) or (hi is not None and v > hi):
            raise OutOfDomain(name)
        return v

    def reals(self, prefix, n):
        return [self.real("%s%d" % (prefix, i)) for i in range(n)]

    def assume(self, cond):
        if self.sym:
            if isinstance(cond, SymBool):
                Engine.cur.assume(cond)
            elif not cond:
                from .core import Infeasible

                raise Infeasible("assumption false")
        elif not cond:
            raise OutOfDomain("assumption")

    # -- assertions -------------------------------------------------------------------------------
    def check(self, facet, cond, note=None):
        n = self._names.get(facet, 0) + 1
        self._names[facet] = n
        if n > 1:
            facet = "%s#%d" % (facet, n)
        if not isinstance(cond, SymBool):
            cond = bool(cond)
        self.facets.append((facet, cond))
        if note is not None and cond is False:
            self.notes.append("%s: %s" % (facet, note))

    def observe(self, name, value):
        self.obs.append((name, value))

    # -- comparisons that work in every mode ----------------------------------------------------
    def _tol(self, a, b):
        return ATOL + RTOL * max(abs(a), abs(b))

    def eq(self, a, b):
        na, nb = isna(a), isna(b)
        if na or nb:
            return na and nb
        if not (_num(a) and _num(b)):
            return a == b
        if self.sym:
            return a == b
        a, b = float(a), float(b)
        return abs(a - b) <= self._tol(a, b)

    def ne(self, a, b):
        return s_not(self.eq(a, b))

    def le(self, a, b):
        if isna(a) or isna(b):
            return False
        if self.sym:
            return a <= b
        a, b = float(a), float(b)
        return a <= b + self._tol(a, b)

    def lt(self, a, b):
        if isna(a) or isna(b):
            return False
        if self.sym:
            return a < b
        a, b = float(a), float(b)
        return a < b + self._tol(a, b)

    def clearly_lt(self, a, b):
        """a < b, for use as the *antecedent* of an implication: in the concrete modes it only holds with a margin, so that a
        tie blurred by float rounding never creates an obligation."""
        if isna(a) or isna(b):
            return False
        if self.sym:
            return a < b
        a, b = float(a), float(b)
        return a < b - self._tol(a, b)

    def clearly_gt(self, a, b):
        return self.clearly_lt(b, a)

    def ge(self, a, b):
        return self.le(b, a)

    def gt(self, a, b):
        return self.lt(b, a)

    def within(self, a, b, bound, strict=True):
        """|a - b| < bound (or <=)."""
        if isna(a) or isna(b):
            return False
        d = a - b
        f = self.lt if strict else self.le
        return s_and(f(d, bound), f(-d, bound))

    def abs(self, x):
        """|x| (forks on the sign of a symbolic value)."""
        if isinstance(x, SymNum):
            return x if bool(x >= 0) else -x
        return abs(x)

    def close(self, a, b, rel=F(1, 10**9)):
        """|a - b| <= rel * max(|a|, |b|)  (for values that pass through double constants such as 1/1000.0)."""
        if isna(a) or isna(b):
            return False
        if not self.sym:
            return self.eq(a, b)
        m = self.abs(a)
        return self.within(a, b, m * rel, strict=False)

    def isnum(self, x):
        """a finite number (symbolic values are finite reals by construction)."""
        if isinstance(x, SymNum):
            return True
        if isna(x):
            return False
        if isinstance(x, (int, F)):
            return True
        try:
            return math.isfinite(float(x))
        except (TypeError, ValueError):
            return False

    all = staticmethod(s_and)
    any = staticmethod(s_or)
    neg = staticmethod(s_not)

    # -- numerals in text ---------------------------------------------------------------------------
    def tok(self, x):
        """How a harness embeds a number into a text skeleton."""
        if isinstance(x, SymNum):
            return tokens.tok(x)
        if isinstance(x, F):
            x = int(x) if x.denominator == 1 else float(x)
        return repr(x)

    def num(self, s):
        """How a reference reader turns a numeral (or token) of a text into a number."""
        if self.sym:
            return tokens.parse_num(s)
        if isinstance(s, (bytes, bytearray)):
            s = bytes(s).decode("ascii")
        s = s.strip()
        try:
            return int(s)
        except ValueError:
            return float(s)

    def value(self, x):
        """Evaluate a (possibly symbolic) number for reporting: sym -> None."""
        if isinstance(x, SymNum):
            return None
        return x
