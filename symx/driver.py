"""Property-level driver: schedules the obligations of one property over all cores, replays
counterexamples, matches known findings, writes the evidence file and sets the exit code.

exit 0  the property held on everything explored (inconclusive items are listed, never counted as success
        of the item itself, and printed as INCONCLUSIVE lines)
exit 1  a replay-confirmed violation that /verif/known_findings.json does not list
exit 2  infrastructure failure (never a property verdict)
"""
from __future__ import annotations

import argparse
import fnmatch
import json
import multiprocessing as mp
import os
import sys
import time
import traceback
import warnings
from concurrent.futures import ThreadPoolExecutor

ROOT = os.path.dirname(os.path.dirname(os.path.abspath(__file__)))

_OBS = None
_ARGS = None


def _init(prop, tier, seed):
    global _OBS, _ARGS
    warnings.filterwarnings("ignore")
    import logging

    logging.disable(logging.CRITICAL)
    from symx import hook

    hook.install()
    from props import load_obligations

    _OBS = {o.id: o for o in load_obligations(prop, tier, seed)}
    if tier == "thorough":  # second solver (cvc5) on up to 25 verification conditions per obligation
        for o in _OBS.values():
            o.params = dict(o.params, _cvc5=25)
    _ARGS = (prop, tier, seed)


def _work(ob_id):
    from symx.run import discharge

    ob = _OBS[ob_id]
    t0 = time.time()
    try:
        if ob.kind == "sx":
            r = discharge(ob)
        else:
            r = ob.fn(ob)
            r.setdefault("id", ob.id)
            r.setdefault("kind", ob.kind)
            r.setdefault("bound", ob.bound)
        r.setdefault("wall_s", round(time.time() - t0, 3))
        return r
    except BaseException as e:  # harness bug: infrastructure, reported as such
        return dict(id=ob_id, kind=ob.kind, bound=ob.bound, error="".join(traceback.format_exception(type(e), e, e.__traceback__))[-3000:],
                    wall_s=round(time.time() - t0, 3))


def load_known():
    p = os.path.join(ROOT, "known_findings.json")
    if not os.path.exists(p):
        return dict(known=[], fixed=[])
    with open(p) as f:
        return json.load(f)


def match_known(known, prop, ob_id, facet):
    for k in known.get("known", []):
        if k["property"] == prop and fnmatch.fnmatchcase(ob_id, k["obligation"]) and fnmatch.fnmatchcase(facet, k["facet"]):
            return k
    return None


def main(argv=None):
    ap = argparse.ArgumentParser()
    ap.add_argument("prop")
    ap.add_argument("--tier", default=os.environ.get("VERIF_TIER", "quick"), choices=["quick", "thorough"])
    ap.add_argument("--seed", type=int, default=int(os.environ.get("VERIF_SEED", "0") or 0))
    ap.add_argument("--jobs", type=int, default=int(os.environ.get("VERIF_JOBS", "0") or 0))
    ap.add_argument("--only", default=None, help="fnmatch pattern on obligation ids (debugging)")
    ap.add_argument("--replay", default=None)
    ap.add_argument("--verbose", "-v", action="store_true")
    a = ap.parse_args(argv)
    prop = a.prop.upper()
    warnings.filterwarnings("ignore")
    sys.path.insert(0, ROOT)
    os.chdir(ROOT)

    if a.replay:
        return do_replay(a.replay)

    t0 = time.time()
    try:
        from symx import hook

        hook.install()  # the scheduler process only enumerates obligations; workers inherit the hooked import system
        from props import load_obligations
        import pandas  # noqa: F401  (imported before forking so that workers share it)
        import z3  # noqa: F401

        obs = load_obligations(prop, a.tier, a.seed)
    except Exception:
        traceback.print_exc()
        print("HARNESS-ERROR property=%s cannot load obligations" % prop)
        return 2
    if a.only:
        obs = [o for o in obs if fnmatch.fnmatchcase(o.id, a.only)]
    ids = [o.id for o in obs]
    assert len(set(ids)) == len(ids), "duplicate obligation ids"
    byid = {o.id: o for o in obs}
    jobs = a.jobs or min(16, os.cpu_count() or 4)
    results = {}
    ctxmp = mp.get_context("fork")
    order = sorted(ids, key=lambda i: -byid[i].timeout_s)
    with ctxmp.Pool(jobs, initializer=_init, initargs=(prop, a.tier, a.seed), maxtasksperchild=40) as pool:
        pending = {i: pool.apply_async(_work, (i,)) for i in order}
        for i in order:
            ob = byid[i]
            try:
                results[i] = pending[i].get(timeout=ob.timeout_s * 3 + 600)
            except mp.TimeoutError:
                results[i] = dict(id=i, kind=ob.kind, bound=ob.bound, error="hard timeout", wall_s=ob.timeout_s * 3 + 600)
            except Exception as e:
                results[i] = dict(id=i, kind=ob.kind, bound=ob.bound, error="worker failed: %r" % (e,), wall_s=0)
        pool.terminate()

    # ---- replay every candidate counterexample against the unhooked code ------------------------------
    from symx.run import replay_subprocess

    todo = []
    for i in ids:
        seen_f = set()
        for c in results[i].get("candidates", []):
            if c.get("confirmed") is None and "model" in c:
                # one counterexample per (obligation, facet) is replayed first; further ones only while the budget lasts
                todo.append((0 if c["facet"] not in seen_f else 1, i, c))
                seen_f.add(c["facet"])
    todo.sort(key=lambda x: x[0])
    # the budget is shared fairly between the groups of obligations (second path component of the id), so that one noisy
    # group cannot use it up: round-robin over the groups, first candidates of a facet before further ones
    from collections import OrderedDict, deque

    groups_ = OrderedDict()
    for item in todo:
        groups_.setdefault((item[0], "/".join(item[1].split("/")[:2])), deque()).append(item)
    todo = []
    while groups_:
        for g in list(groups_):
            todo.append(groups_[g].popleft())
            if not groups_[g]:
                del groups_[g]
    todo.sort(key=lambda x: x[0])  # (stable: keeps the interleaving inside each priority class)
    cap = int(os.environ.get("VERIF_MAX_REPLAYS", "150"))
    allowed, kept, skipped = set(), [], 0
    for _pr, i, c in todo:  # the budget counts distinct (obligation, model) pairs: one replay decides all candidates sharing them
        key = (i, json.dumps(c["model"], sort_keys=True))
        if key in allowed or len(allowed) < cap:
            allowed.add(key)
            kept.append((i, c))
        else:
            skipped += 1
            c["confirmed"] = False
            c["replay"] = dict(skipped="replay budget (%d) used up by other counterexamples of this run" % cap)
    todo = kept
    if skipped:
        print("NOTE property=%s %d further solver counterexamples were not replayed (budget %d; set VERIF_MAX_REPLAYS to raise it)" % (prop, skipped, cap))

    def rp(item):
        i, c = item
        out = replay_subprocess(prop, a.tier, a.seed, i, c["model"])
        c["replay"] = out
        if "error" in out or "out_of_domain" in out:
            c["confirmed"] = False
        else:
            c["confirmed"] = out.get("facets", {}).get(c["facet"], None) is False
        return c

    if todo:
        # one replay per distinct (obligation, model): a replay reports every facet of the harness, so it decides all the
        # candidates of that obligation that share the model
        distinct, order_ = {}, []
        for i, c in todo:
            key = (i, json.dumps(c["model"], sort_keys=True))
            if key not in distinct:
                distinct[key] = []
                order_.append((i, c))
            distinct[key].append(c)
        with ThreadPoolExecutor(max_workers=jobs) as ex:
            list(ex.map(rp, order_))
        for (i, _k), group in distinct.items():
            lead = group[0]
            for c in group[1:]:
                out = lead.get("replay", {})
                c["replay"] = out
                c["confirmed"] = False if ("error" in out or "out_of_domain" in out) else out.get("facets", {}).get(c["facet"], None) is False
        # a facet that a replayed model of the same obligation falsifies is confirmed with that model, whichever candidate it came from
        for i in ids:
            outs = [(c["model"], c["replay"]) for c in results[i].get("candidates", []) if isinstance(c.get("replay"), dict) and "facets" in c["replay"]]
            for c in results[i].get("candidates", []):
                if not c.get("confirmed"):
                    for model, out in outs:
                        if out["facets"].get(c["facet"], None) is False:
                            c["model"], c["replay"], c["confirmed"] = model, out, True
                            break

    # ---- verdicts ---------------------------------------------------------------------------------------
    known = load_known()
    violations, known_hits, unconfirmed, inconclusive, errors, mismatches = [], [], [], [], [], []
    rpdir = os.environ.get("VERIF_REPLAY_DIR") or os.path.join(ROOT, "replays")
    os.makedirs(rpdir, exist_ok=True)
    for fn in os.listdir(rpdir):
        if fn.startswith(prop + "-"):
            os.remove(os.path.join(rpdir, fn))
    for i in ids:
        r = results[i]
        if "error" in r:
            errors.append((i, r["error"]))
            continue
        for msg in r.get("inconclusive", []):
            inconclusive.append((i, msg))
        for msg in r.get("mismatches", []):
            mismatches.append((i, msg))
        seen_facets = set()
        for c in r.get("candidates", []):
            if c["facet"] in seen_facets:
                continue
            if c.get("confirmed"):
                seen_facets.add(c["facet"])
                k = match_known(known, prop, i, c["facet"])
                if k:
                    known_hits.append((i, c, k))
                else:
                    violations.append((i, c))
        for c in r.get("candidates", []):
            if c["facet"] not in seen_facets and not c.get("confirmed"):
                seen_facets.add(c["facet"])
                unconfirmed.append((i, c))

    for i, c, k in known_hits:
        pass
    printed = set()
    for i, c, k in known_hits:
        key = k.get("id", k["what"])
        if key not in printed:
            printed.add(key)
            print("KNOWN-FINDING: property=%s %s" % (prop, k["what"]))
    for i, msg in inconclusive:
        print("INCONCLUSIVE property=%s obligation=%s %s" % (prop, i, msg))
    for i, msg in mismatches:
        print("MODEL-MISMATCH property=%s obligation=%s %s" % (prop, i, msg))
    for i, c in unconfirmed:
        print("UNCONFIRMED property=%s obligation=%s facet=%s (solver counterexample did not reproduce on the real code: %s)"
              % (prop, i, c["facet"], json.dumps(c.get("replay", {}))[:300]))
    for i, e in errors:
        print("HARNESS-ERROR property=%s obligation=%s %s" % (prop, i, e.strip().splitlines()[-1] if e.strip() else e))
        if a.verbose:
            print(e)
    vio_paths = []
    for n, (i, c) in enumerate(violations):
        path = os.path.join(rpdir, "%s-%d.json" % (prop, n))
        with open(path, "w") as f:
            json.dump(dict(property=prop, tier=a.tier, seed=a.seed, obligation=i, facet=c["facet"], model=c["model"],
                           notes=c.get("notes"), replay=c.get("replay")), f, indent=1)
        vio_paths.append(path)
        print("VIOLATION property=%s replay=%s obligation=%s facet=%s model=%s %s"
              % (prop, path, i, c["facet"], json.dumps(c["model"]), "; ".join(c.get("notes") or [])))

    wall = time.time() - t0
    write_evidence(prop, a, obs, results, violations, known_hits, unconfirmed, inconclusive, errors, mismatches, wall)
    tot = lambda k: sum(r.get(k, 0) or 0 for r in results.values())
    print("SUMMARY property=%s tier=%s obligations=%d paths=%d vcs=%d facets_proved=%d queries=%d solver_s=%.1f violations=%d known=%d "
          "unconfirmed=%d inconclusive=%d mismatches=%d errors=%d wall_s=%.1f"
          % (prop, a.tier, len(ids), tot("paths"), tot("vcs"), tot("proved") + tot("trivial"), tot("queries"), tot("solver_s"),
             len(violations), len(known_hits), len(unconfirmed), len(inconclusive), len(mismatches), len(errors), wall))
    if violations:
        return 1
    if errors:
        # an obligation whose harness crashed was not explored: the run cannot vouch for the property (infrastructure, not a verdict)
        print("HARNESS-ERROR property=%s %d of %d obligations crashed in the harness: the run is not evidence" % (prop, len(errors), len(ids)))
        return 2
    # vacuity guard: a run in which most obligations could not be decided says nothing (engine or harness broken)
    undecided = {i for i, _m in inconclusive} | {i for i, _e in errors} | {i for i, _c in unconfirmed}
    if ids and len(undecided) * 2 > len(ids):
        print("HARNESS-ERROR property=%s %d of %d obligations were not decided (inconclusive / unconfirmed / failed): the run is not evidence" % (prop, len(undecided), len(ids)))
        return 2
    return 0


def write_evidence(prop, a, obs, results, violations, known_hits, unconfirmed, inconclusive, errors, mismatches, wall):
    from symx import hook

    tot = lambda k: sum(r.get(k, 0) or 0 for r in results.values())
    funcs = sorted({f for r in results.values() for f in r.get("functions", [])})
    stubs = sorted({s for r in results.values() for s in r.get("stubs", [])})
    assumptions = sorted({s for r in results.values() for s in r.get("assumptions", [])})
    samples = []
    for o in obs:
        r = results[o.id]
        if r.get("sample") and len(samples) < 6:
            samples.append(dict(obligation=o.id, bound=o.bound, path_model=r["sample"]))
    if not samples:
        samples = [dict(obligation=o.id, bound=o.bound) for o in obs[:3]]
    nontrivial = sum(1 for r in results.values() if (r.get("paths", 0) or 0) > 0 and (r.get("proved", 0) or 0) + len(r.get("candidates", [])) > 0)
    per_ob = []
    for o in obs:
        r = results[o.id]
        per_ob.append({k: r.get(k) for k in ("id", "kind", "bound", "paths", "aborted", "vcs", "proved", "trivial", "queries", "solver_s",
                                               "unknowns", "validated", "validation_skipped", "wall_s", "error", "detail") if r.get(k) is not None}
                      | dict(inconclusive=len(r.get("inconclusive", [])), candidates=[dict(facet=c["facet"], confirmed=c.get("confirmed"), model=c.get("model")) for c in r.get("candidates", [])][:6]))
    ev = dict(
        property_id=prop,
        tier=a.tier,
        seed=a.seed,
        level="other",
        wall_s=round(wall, 2),
        violations=len(violations),
        coverage=dict(
            explanation=(
                "Bounded symbolic verification: reamber's current source is executed on the real pandas with z3-backed proxy "
                "numbers (engine SX), on symbolic strings by CrossHair (engine CH) or translated to direct SMT queries (engine K). "
                "Discrete structure (row counts, list classes, converters, skeletons, histories) is enumerated up to the bound stated "
                "per obligation; inside each structure every number is a solver variable and every feasible path ends in a verification "
                "condition that z3 must prove unsat. Counterexamples are replayed against the unhooked code before being reported."
            ),
            obligations=len(obs),
            discharged=sum(1 for r in results.values() if "error" not in r and not r.get("inconclusive") and not [c for c in r.get("candidates", []) if c.get("confirmed")]),
            evaluations=tot("vcs") + tot("queries"),
            distinct_nontrivial=tot("paths"),
            rule="evaluations = solver queries (branch feasibility + verification conditions); distinct_nontrivial = distinct feasible "
                 "execution paths explored (each is a distinct order/tie/sign pattern of the symbolic inputs, proven feasible by the solver)",
            paths=tot("paths"),
            verification_conditions=tot("vcs"),
            facets_proved=tot("proved"),
            facets_trivially_true=tot("trivial"),
            branch_and_vc_queries=tot("queries"),
            solver_seconds=round(tot("solver_s"), 2),
            solver_unknowns=tot("unknowns"),
            paths_aborted=tot("aborted"),
            paths_validated_concretely=tot("validated"),
            paths_pruned_outside_domain=tot("pruned"),
            second_solver=dict(solver="cvc5 (python wheel)", verification_conditions_rechecked=tot("cvc5_checked"), agree=tot("cvc5_agree"), disagree=tot("cvc5_disagree"),
                               no_answer_within_4s=tot("cvc5_noanswer"), seconds=round(tot("cvc5_s"), 2)),
            obligations_with_proofs=nontrivial,
            confirmed_violations=len(violations),
            known_findings_matched=sorted({k.get("id", k["what"]) for _, _, k in known_hits}),
            unconfirmed_counterexamples=[dict(obligation=i, facet=c["facet"]) for i, c in unconfirmed][:20],
            inconclusive=[dict(obligation=i, reason=m) for i, m in inconclusive][:40],
            model_mismatches=[dict(obligation=i, detail=m) for i, m in mismatches][:20],
            harness_errors=[dict(obligation=i, error=e.strip().splitlines()[-1] if e.strip() else e) for i, e in errors][:20],
            functions_executed_symbolically=funcs,
            call_site_rewrites=hook.REWRITE_TABLE,
            stubs=stubs,
            samples=samples,
            per_obligation=per_ob,
            exhaustive=False,
        ),
        assumptions=[
            "float arithmetic modelled as exact real arithmetic; float constants at their exact double value",
            "pandas/numpy/CPython execute concretely and are trusted; object-dtype columns stand for float64 columns (checked per path by concolic validation)",
            "z3 4.x/5.x decides the verification conditions; unknown/timeouts are reported as inconclusive",
        ] + assumptions,
    )
    evdir = os.environ.get("VERIF_EVIDENCE_DIR") or os.path.join(ROOT, "evidence")
    os.makedirs(evdir, exist_ok=True)
    with open(os.path.join(evdir, "%s.json" % prop), "w") as f:
        json.dump(ev, f, indent=1, default=str)


def do_replay(path):
    from symx.run import replay_subprocess

    with open(path) as f:
        r = json.load(f)
    out = replay_subprocess(r["property"], r["tier"], r["seed"], r["obligation"], r["model"])
    print(json.dumps(out, indent=1))
    ok = out.get("facets", {}).get(r["facet"])
    if ok is False:
        print("VIOLATION property=%s replay=%s (facet %s fails on the real code)" % (r["property"], path, r["facet"]))
        return 1
    print("replay: facet %s does not fail" % r["facet"])
    return 0


if __name__ == "__main__":
    sys.exit(main())
