"""SX: proxy-based symbolic execution of reamberPy's real code on the real pandas (see DESIGN.md)."""
