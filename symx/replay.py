"""Fresh-interpreter replay of a counterexample against the UNHOOKED repository code.

stdin: {"property","tier","seed","obligation","model"}; stdout (last line): {"facets": {name: bool}, ...}
"""
import json
import sys
import warnings

warnings.filterwarnings("ignore")


def main():
    req = json.loads(sys.stdin.read())
    from symx import hook

    assert not hook.installed()
    import logging

    logging.disable(logging.CRITICAL)
    from props import load_obligations
    from symx.run import replay_concrete

    obs = {o.id: o for o in load_obligations(req["property"], req["tier"], req["seed"])}
    ob = obs.get(req["obligation"])
    if ob is None:
        print(json.dumps(dict(error="unknown obligation %s" % req["obligation"])))
        return
    if ob.kind == "ch":
        from symx import chrun

        out = chrun.replay(ob, req["model"])
    else:
        out = replay_concrete(ob, req["model"])
    print(json.dumps(out))


if __name__ == "__main__":
    main()
