"""Engine CH: one CrossHair condition = one obligation.

``run(ob)`` starts ``crosshair check --report_all`` on a single contract-carrying function of a harness module under
/verif/ch (symbolic ``str`` arguments, z3 underneath), parses the verdict and, for a counterexample, re-executes the
function concretely in a fresh interpreter before reporting it.
"""
from __future__ import annotations

import ast
import os
import re
import subprocess
import sys
import time

ROOT = os.path.dirname(os.path.dirname(os.path.abspath(__file__)))
CEX = re.compile(r"error: false when calling (\w+)\((.*)\) \(which returns")


def _env():
    env = dict(os.environ)
    env["PYTHONPATH"] = ROOT + (":" + env["VERIF_REPO"] if env.get("VERIF_REPO") else "")
    env["PYTHONDONTWRITEBYTECODE"] = "1"
    return env


def _line_of(path, func):
    tree = ast.parse(open(path).read())
    for n in tree.body:
        if isinstance(n, ast.FunctionDef) and n.name == func:
            return n.body[0].lineno  # inside the def (the docstring)
    raise KeyError(func)


def concrete(module, func, argsrc, timeout=120):
    """call module.func(<argsrc>) in a fresh interpreter; returns 'True' / 'False' / 'error: ...'"""
    code = "import warnings; warnings.filterwarnings('ignore')\nimport %s as m\nprint('RESULT', m.%s(%s))" % (module, func, argsrc)
    try:
        p = subprocess.run([sys.executable, "-c", code], capture_output=True, text=True, cwd=ROOT, env=_env(), timeout=timeout)
    except subprocess.TimeoutExpired:
        return "error: timeout"
    for line in p.stdout.splitlines():
        if line.startswith("RESULT "):
            return line[7:].strip()
    return "error: " + (p.stderr.strip().splitlines() or ["no output"])[-1][:200]


def run(ob):
    module, func, tmo = ob.params["module"], ob.params["func"], ob.params.get("timeout", 30)
    path = os.path.join(ROOT, *module.split(".")) + ".py"
    line = _line_of(path, func)
    t0 = time.time()
    try:
        p = subprocess.run([sys.executable, "-m", "crosshair", "check", "--report_all", "--per_condition_timeout", str(tmo), "%s:%d" % (path, line)],
                           capture_output=True, text=True, cwd=ROOT, env=_env(), timeout=tmo * 3 + 120)
        out = p.stdout + p.stderr
    except subprocess.TimeoutExpired:
        out = "harness timeout"
    res = dict(id=ob.id, kind="ch", bound=ob.bound, paths=1, vcs=1, proved=0, trivial=0, queries=0, solver_s=round(time.time() - t0, 2), inconclusive=[], candidates=[],
               functions=["%s:%s (CrossHair, symbolic str)" % (module, func)], stubs=list(ob.stubs), assumptions=list(ob.assumptions), detail=out.strip().splitlines()[-1][-200:] if out.strip() else "")
    m = CEX.search(out)
    if m and m.group(1) == func:
        argsrc = m.group(2)
        got = concrete(module, func, argsrc)
        res["candidates"].append(dict(facet=func, model=dict(args=argsrc), confirmed=(got == "False"), replay=dict(result=got), notes=["%s(%s) -> %s" % (func, argsrc, got)]))
    elif "Confirmed over all paths" in out:
        res["proved"] = 1
    else:
        why = "CrossHair: " + (out.strip().splitlines()[-1][-160:] if out.strip() else "no verdict")
        res["inconclusive"].append(why)
    return res


def replay(ob, model):
    got = concrete(ob.params["module"], ob.params["func"], model["args"])
    return dict(facets={ob.params["func"]: (got != "False")}, notes=["%s(%s) -> %s" % (ob.params["func"], model["args"], got)])
