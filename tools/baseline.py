#!/usr/bin/env python3
"""Runs the repository's pinned test suite (guard off) and compares with /root/.vp/BASELINE.json."""
import json, subprocess, sys, tempfile, os, xml.etree.ElementTree as ET
repo = sys.argv[1] if len(sys.argv) > 1 else "/repo"
base = json.load(open("/root/.vp/BASELINE.json"))
with tempfile.TemporaryDirectory() as d:
    x = os.path.join(d, "j.xml")
    p = subprocess.run(["/venv/bin/python", "-m", "pytest", "-q", "-p", "no:cacheprovider", "--timeout=900", "--continue-on-collection-errors",
                        "-x" if "-x" in sys.argv else "-q", "--junitxml=" + x, "-n", "8"] if False else
                       ["/venv/bin/python", "-m", "pytest", "-q", "-p", "no:cacheprovider", "--timeout=900", "--continue-on-collection-errors", "--junitxml=" + x],
                       cwd=repo, capture_output=True, text=True)
    passed = set()
    for tc in ET.parse(x).getroot().iter("testcase"):
        if not list(tc):
            passed.add("%s::%s" % (tc.get("classname"), tc.get("name")))
missing = sorted(set(base["stable_pass"]) - passed)
print("passed", len(passed), "baseline", len(base["stable_pass"]), "missing", len(missing))
for m in missing[:40]:
    print("  MISSING", m)
if missing:
    print(p.stdout[-3000:])
sys.exit(1 if missing else 0)
