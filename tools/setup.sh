#!/bin/sh
# Builds the overlay virtualenv used by every check (offline, idempotent).
# /venv (the repository's interpreter + pandas/numpy/pytest) is left untouched; the overlay adds
# z3-solver, cvc5 and crosshair-tool from the offline wheelhouse and sees /venv's site-packages
# and /repo through a .pth file.
set -e
HERE="$(cd "$(dirname "$0")/.." && pwd)"
VENV="$HERE/.venv"
STAMP="$VENV/.ok-v1"
if [ -f "$STAMP" ]; then exit 0; fi
exec 9>"$HERE/.venv.lock"
flock 9
if [ -f "$STAMP" ]; then exit 0; fi
rm -rf "$VENV"
/venv/bin/python -m venv "$VENV"
SP="$("$VENV/bin/python" -c 'import sysconfig; print(sysconfig.get_paths()["purelib"])')"
printf '%s\n' "import site; site.addsitedir('/venv/lib/python3.12/site-packages')" > "$SP/_verif_overlay.pth"
printf '%s\n' "/repo" >> "$SP/_verif_overlay.pth"
PIP_NO_INDEX=1 "$VENV/bin/python" -m pip install --quiet --no-index --find-links /opt/veriftools/wheels \
    z3-solver cvc5 crosshair-tool >/dev/null
"$VENV/bin/python" -c 'import z3, cvc5, crosshair, pandas, numpy, reamber; assert numpy.__version__.startswith("1.26"), numpy.__version__'
touch "$STAMP"
