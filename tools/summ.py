#!/usr/bin/env python3
"""Aggregated view of an evidence file (debugging aid)."""
import json,collections,sys
ev=json.load(open('/verif/evidence/%s.json'%sys.argv[1]))
c=collections.Counter()
depth=int(sys.argv[2]) if len(sys.argv)>2 else 2
for o in ev['coverage']['per_obligation']:
    key='/'.join(o['id'].split('/')[1:1+depth])
    for cand in o['candidates']:
        c[(key, cand['facet'], 'CONFIRMED' if cand['confirmed'] else 'unconfirmed')]+=1
    if o.get('error'): c[('ERR',key,o['error'].strip().splitlines()[-1][:160])]+=1
for k,v in sorted(c.items(), key=str): print(v,k)
for x in ev['coverage']['inconclusive'][:6]: print('INC',x)
for x in ev['coverage']['model_mismatches'][:6]: print('MM',x)
rows=sorted(((o.get('wall_s',0),o.get('paths'),o['id']) for o in ev['coverage']['per_obligation']),reverse=True)
for r in rows[:6]: print(r)
