#!/bin/sh
# False-alarm hunt: runs every quick check on the unchanged tree with different z3 seeds / VERIF_SEED values.
# Anything other than "exit=0 ... 0 viol" is a flaw of the machinery (or a new genuine finding) and must be triaged.
cd "$(dirname "$0")/.."
export VERIF_EVIDENCE_DIR=/tmp/soak-evidence VERIF_REPLAY_DIR=/tmp/soak-replays
for zs in ${1:-11 23 37}; do
  for p in C01 C02 C03 C04 C05 C06 C07 C08 C09 C10 C11 C12 C13 C14 C15 C16 C17 C18 C19 C20; do
    VERIF_Z3_SEED=$zs VERIF_SEED=$zs ./check $p --tier quick > /tmp/soak-$p-$zs.log 2>&1; rc=$?
    v=$(grep -c '^VIOLATION' /tmp/soak-$p-$zs.log)
    [ "$rc" != 0 -o "$v" != 0 ] && echo "SOAK seed=$zs $p exit=$rc violations=$v :: $(grep '^VIOLATION' /tmp/soak-$p-$zs.log | head -1 | cut -c1-300)"
  done
  echo "SOAK seed=$zs done"
done
