#!/bin/sh
# like seedtest.sh but on a private scratch worktree (does not touch /repo): tools/seedone.sh <seed-id> [property] [tier]
ID="$1"; HERE="$(cd "$(dirname "$0")/.." && pwd)"; PROP="${2:-$(echo "$ID" | cut -d- -f1)}"; TIER="${3:-quick}"; WT="/tmp/wt/one-$ID-$$"
git -C /repo worktree add -q --detach "$WT" HEAD || exit 2
trap 'git -C /repo worktree remove --force "$WT"' EXIT INT TERM
(cd "$WT" && git apply "$HERE/seeded/$ID/patch.diff") || { echo "SEED $ID: patch does not apply"; exit 3; }
cd "$HERE" && VERIF_REPO="$WT" VERIF_EVIDENCE_DIR=/tmp/one-evidence VERIF_REPLAY_DIR=/tmp/one-replays ./check "$PROP" --tier "$TIER" > "/tmp/one-$ID.log" 2>&1
echo "SEED $ID prop=$PROP exit=$? $(grep -c '^VIOLATION' /tmp/one-$ID.log) violations; $(grep '^SUMMARY' /tmp/one-$ID.log | cut -c1-160)"
grep '^VIOLATION' "/tmp/one-$ID.log" | head -1 | cut -c1-260
