#!/bin/sh
# usage: tools/seedtest.sh <seed-id> [property] [tier]  -- applies seeded/<id>/patch.diff to /repo, runs the check, reverts.
ID="$1"; HERE="$(cd "$(dirname "$0")/.." && pwd)"
PROP="${2:-$(echo "$ID" | cut -d- -f1)}"; TIER="${3:-quick}"
cd /repo || exit 2
git diff --quiet || { echo "repo dirty"; exit 2; }
git apply "$HERE/seeded/$ID/patch.diff" || { echo "SEED $ID: patch does not apply"; exit 3; }
trap 'git -C /repo checkout -- . ' EXIT INT TERM
cd "$HERE" && ./check "$PROP" --tier "$TIER" > "/tmp/seed-$ID-$PROP.log" 2>&1
RC=$?
echo "SEED $ID prop=$PROP tier=$TIER exit=$RC $(grep -c '^VIOLATION' /tmp/seed-$ID-$PROP.log) violations; $(grep '^SUMMARY' /tmp/seed-$ID-$PROP.log | cut -c1-200)"
grep '^VIOLATION' "/tmp/seed-$ID-$PROP.log" | head -2 | cut -c1-260
