#!/bin/sh
# runs every registered check at the given tier (default quick) and prints one line per property
TIER="${1:-quick}"; cd "$(dirname "$0")/.."
for p in C01 C02 C03 C04 C05 C06 C07 C08 C09 C10 C11 C12 C13 C14 C15 C16 C17 C18 C19 C20; do
  s=$(date +%s); ./check $p --tier $TIER > /tmp/runall-$p-$TIER.log 2>&1; rc=$?; e=$(date +%s)
  echo "$p exit=$rc wall=$((e-s))s $(grep -c '^VIOLATION' /tmp/runall-$p-$TIER.log) viol $(grep -c '^KNOWN' /tmp/runall-$p-$TIER.log) known $(grep -c '^INCONCLUSIVE' /tmp/runall-$p-$TIER.log) inconcl $(grep -c '^UNCONFIRMED' /tmp/runall-$p-$TIER.log) unconf $(grep -c '^HARNESS' /tmp/runall-$p-$TIER.log) herr"
done
