#!/bin/sh
# Runs the quick check of every seeded change's property against a scratch worktree of /repo with the change applied.
# Writes seeded/RESULTS.txt.  /repo itself is not touched; evidence/replays go to scratch directories.
# Usage: tools/seed_all.sh [lanes]   (default 3 lanes, each with its own worktree and a share of the cores)
# SEED_GLOB selects the seeds (default: all three rounds).
HERE="$(cd "$(dirname "$0")/.." && pwd)"; LANES="${1:-3}"; OUT="$HERE/seeded/RESULTS.txt"
ls -d "$HERE"/seeded/${SEED_GLOB:-C*-[mnp][0-9]*} > /tmp/seedall.list
lane() {
  L="$1"; WT="/tmp/wt/seedrun$L"
  git -C /repo worktree remove --force "$WT" 2>/dev/null; git -C /repo worktree add -q --detach "$WT" HEAD || exit 2
  : > "/tmp/seedall.out$L"
  awk -v l="$L" -v n="$LANES" 'NR % n == l % n' /tmp/seedall.list | while read d; do
    id=$(basename "$d"); prop=$(echo "$id" | cut -d- -f1)
    (cd "$WT" && git checkout -q -- . && git apply "$d/patch.diff") || { echo "$id patch-does-not-apply" >> "/tmp/seedall.out$L"; continue; }
    (cd "$HERE" && VERIF_MAX_REPLAYS=25 VERIF_JOBS=6 VERIF_REPO="$WT" VERIF_EVIDENCE_DIR="/tmp/seed-evidence$L" VERIF_REPLAY_DIR="/tmp/seed-replays$L" ./check "$prop" --tier quick > "/tmp/seedall-$id.log" 2>&1); rc=$?
    v=$(grep -c '^VIOLATION' "/tmp/seedall-$id.log")
    first=$(grep '^VIOLATION' "/tmp/seedall-$id.log" | head -1 | sed 's/.*obligation=\([^ ]*\) facet=\([^ ]*\).*/\1 :: \2/')
    echo "$id exit=$rc violations=$v first=[$first]" >> "/tmp/seedall.out$L"
  done
  (cd "$WT" && git checkout -q -- .); git -C /repo worktree remove --force "$WT"
}
i=1; while [ "$i" -le "$LANES" ]; do lane "$i" & i=$((i+1)); done; wait
cat /tmp/seedall.out* | sort > "$OUT"; cat "$OUT"
