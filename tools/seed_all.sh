#!/bin/sh
# Runs the quick check of every seeded change's property against a scratch worktree of /repo with the change applied.
# Writes seeded/RESULTS.txt.  /repo itself is not touched; evidence/replays go to a scratch directory.
HERE="$(cd "$(dirname "$0")/.." && pwd)"; WT=/tmp/wt/seedrun; OUT="$HERE/seeded/RESULTS.txt"
git -C /repo worktree remove --force "$WT" 2>/dev/null; git -C /repo worktree add -q --detach "$WT" HEAD || exit 2
export VERIF_MAX_REPLAYS=25 VERIF_REPO="$WT" VERIF_EVIDENCE_DIR=/tmp/seed-evidence VERIF_REPLAY_DIR=/tmp/seed-replays
: > "$OUT.new"
for d in "$HERE"/seeded/${SEED_GLOB:-C*-[mnp][0-9]*}; do
  id=$(basename "$d"); prop=$(echo "$id" | cut -d- -f1)
  [ -n "$1" ] && [ "$prop" != "$1" ] && continue
  (cd "$WT" && git checkout -q -- . && git apply "$d/patch.diff") || { echo "$id patch-does-not-apply" >> "$OUT.new"; continue; }
  (cd "$HERE" && ./check "$prop" --tier quick > "/tmp/seedall-$id.log" 2>&1); rc=$?
  v=$(grep -c '^VIOLATION' "/tmp/seedall-$id.log")
  first=$(grep '^VIOLATION' "/tmp/seedall-$id.log" | head -1 | sed 's/.*obligation=\([^ ]*\) facet=\([^ ]*\).*/\1 :: \2/')
  echo "$id exit=$rc violations=$v first=[$first]" >> "$OUT.new"
done
(cd "$WT" && git checkout -q -- .); git -C /repo worktree remove --force "$WT"
mv "$OUT.new" "$OUT"; cat "$OUT"
