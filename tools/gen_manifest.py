#!/usr/bin/env python3
"""Regenerates MANIFEST.json from the table below (keeps the file valid and in one place)."""
import json, os

HERE = os.path.dirname(os.path.dirname(os.path.abspath(__file__)))
props = [json.loads(l) for l in open(os.path.join(HERE, "properties.jsonl"))]

# property -> (design section, technique, level text, level note)
CLAIMED = json.load(open(os.path.join(HERE, "tools", "claims.json")))

checks, na = [], []
for p in props:
    pid = p["id"]
    c = CLAIMED.get(pid)
    if not c or c.get("not_applicable"):
        na.append(dict(property_id=pid, reason=(c or {}).get("not_applicable", "check not built yet (work in progress)")))
        continue
    checks.append(dict(
        property_id=pid,
        quick_cmd="./check %s --tier quick" % pid,
        thorough_cmd="./check %s --tier thorough" % pid,
        evidence_file="/verif/evidence/%s.json" % pid,
        replay_cmd_template="./check %s --replay {path}" % pid,
        engine="symx",
        level_claimed=dict(category="other", text=c["level"], design_ref=c.get("design_ref", "DESIGN.md section 4, %s" % pid)),
        level_note=c["note"],
        technique=c["technique"],
    ))

man = dict(
    version=1,
    setup_cmd="./tools/setup.sh",
    hooks=dict(
        guard="EVE_NING_REAMBERPY_VERIF",
        enable="none needed: the checker process compiles /repo's current reamber sources through an import hook (symx/hook.py) that "
               "redirects a fixed table of call sites; /repo itself carries no instrumentation",
        baseline_off_cmd="cd /repo && /venv/bin/python -m pytest -ra -q -p no:cacheprovider --timeout=900 --continue-on-collection-errors",
        source_commits=[],
        add_only=True,
    ),
    engines=[
        dict(name="symx", path="/verif/symx", serves_properties=[c["property_id"] for c in checks],
             kind_free_text="dynamic symbolic execution of reamber's current source on the real pandas with z3-backed proxy numbers "
                            "(Laurent-polynomial normal form), path exploration by re-execution, per-path verification conditions decided by z3, "
                            "replay of counterexamples on the unhooked code; CrossHair for string kernels; direct SMT kernels"),
    ],
    checks=checks,
    not_applicable=na,
    notes="Every check: exit 0 unless a replay-confirmed violation not listed in known_findings.json exists (exit 1 + VIOLATION line); "
          "exit 2 only for infrastructure failure. INCONCLUSIVE / UNCONFIRMED / MODEL-MISMATCH lines are evidence, not verdicts.",
)
json.dump(man, open(os.path.join(HERE, "MANIFEST.json"), "w"), indent=1)
print("checks:", [c["property_id"] for c in checks], "n/a:", [n["property_id"] for n in na])
